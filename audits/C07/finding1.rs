// Belongs to: crates/maybenot/tests/  (crate `maybenot`)
//
// C07 finding 1: a stay whose sampled limit is ZERO still yields the limited
// action when the state is re-entered through a CounterZero round trip that is
// started by a self-transition (or by the first entry) of the same state in the
// same call. The framework evaluates `below_action_limits` for the outer
// transition BEFORE `update_counter` runs the nested CounterZero transitions
// (framework.rs, fn transition), so the outer frame schedules the action using
// the state limit of the PREVIOUS stay although the round trip has left the
// state, re-entered it and re-sampled the limit (to 0) in between.
//
// Machine (one machine, index 0):
//   s0  start:  NormalRecv -> s1
//   s1  setup:  counter A := 2, counter B := 1;  NormalRecv -> s2
//   s2  S:      limited action, limit ~ Uniform[0,1) rounded (0 or 1);
//               counter A -= 1;  NormalSent -> s2 (self);  CounterZero -> s3
//   s3  T:      no action; counter B -= 1;  CounterZero -> s2
//
// History (single-event calls):
//   1. NormalRecv           s0 -> s1   A=2 B=1
//   2. NormalRecv           s1 -> S    stay #1, limit L1 sampled; A=1
//   3. NormalSent           S -> S (self), A=0 -> CounterZero -> T, B=0 ->
//                           CounterZero -> S: stay #2, limit L2 sampled
//   4. NormalSent           S -> S (self), no counter reaches zero: the action
//                           is returned iff the remaining limit of stay #2 > 0
//
// No completion (PaddingSent/BlockingBegin/TimerBegin) is ever reported, so the
// remaining limit of stay #2 in call 4 is exactly L2.

use std::cell::Cell;
use std::rc::Rc;
use std::time::{Duration, Instant};

use enum_map::enum_map;
use maybenot::action::Action;
use maybenot::counter::{Counter, Operation};
use maybenot::dist::{Dist, DistType};
use maybenot::event::Event;
use maybenot::state::{State, Trans};
use maybenot::{Framework, Machine, TriggerAction, TriggerEvent};
use rand_core::{impls, Error, RngCore};

/// An RNG whose every output word is the value currently held in a shared
/// cell. u64::MAX makes every f32/f64 `gen_range(low..high)` return the largest
/// value below `high`; 0 makes it return `low`. All transitions in the machine
/// have probability 1.0 and all other distributions are constants, so the only
/// draw whose outcome depends on the cell is the limit: Uniform[0,1) rounds to 1
/// with u64::MAX and to 0 with 0.
#[derive(Clone)]
struct CellRng(Rc<Cell<u64>>);

impl RngCore for CellRng {
    fn next_u32(&mut self) -> u32 {
        (self.0.get() >> 32) as u32
    }
    fn next_u64(&mut self) -> u64 {
        self.0.get()
    }
    fn fill_bytes(&mut self, dest: &mut [u8]) {
        impls::fill_bytes_via_next(self, dest)
    }
    fn try_fill_bytes(&mut self, dest: &mut [u8]) -> Result<(), Error> {
        self.fill_bytes(dest);
        Ok(())
    }
}

fn constant(v: f64) -> Dist {
    Dist::new(DistType::Uniform { low: v, high: v }, 0.0, 0.0)
}

fn limit_zero_or_one() -> Dist {
    Dist::new(
        DistType::Uniform {
            low: 0.0,
            high: 1.0,
        },
        0.0,
        0.0,
    )
}

#[derive(Clone, Copy, Debug)]
enum Kind {
    Padding,
    Blocking,
    Timer,
}

fn limited_action(kind: Kind) -> Action {
    match kind {
        Kind::Padding => Action::SendPadding {
            bypass: false,
            replace: false,
            timeout: constant(5.0),
            limit: Some(limit_zero_or_one()),
        },
        Kind::Blocking => Action::BlockOutgoing {
            bypass: false,
            replace: false,
            timeout: constant(5.0),
            duration: constant(7.0),
            limit: Some(limit_zero_or_one()),
        },
        Kind::Timer => Action::UpdateTimer {
            replace: false,
            duration: constant(9.0),
            limit: Some(limit_zero_or_one()),
        },
    }
}

fn machine(kind: Kind) -> Machine {
    let s0 = State::new(enum_map! {
        Event::NormalRecv => vec![Trans(1, 1.0)],
        _ => vec![],
    });

    let mut s1 = State::new(enum_map! {
        Event::NormalRecv => vec![Trans(2, 1.0)],
        _ => vec![],
    });
    s1.counter = (
        Some(Counter::new_dist(Operation::Set, constant(2.0))),
        Some(Counter::new_dist(Operation::Set, constant(1.0))),
    );

    let mut s2 = State::new(enum_map! {
        Event::NormalSent => vec![Trans(2, 1.0)],
        Event::CounterZero => vec![Trans(3, 1.0)],
        _ => vec![],
    });
    s2.action = Some(limited_action(kind));
    s2.counter = (Some(Counter::new(Operation::Decrement)), None);

    let mut s3 = State::new(enum_map! {
        Event::CounterZero => vec![Trans(2, 1.0)],
        _ => vec![],
    });
    s3.counter = (None, Some(Counter::new(Operation::Decrement)));

    // no padding/blocking budgets: allowed 0, fractions 0.0 (= unlimited)
    Machine::new(0, 0.0, 0, 0.0, vec![s0, s1, s2, s3]).unwrap()
}

fn is_limited_action(a: &TriggerAction<Instant>, kind: Kind) -> bool {
    matches!(
        (a, kind),
        (TriggerAction::SendPadding { .. }, Kind::Padding)
            | (TriggerAction::BlockOutgoing { .. }, Kind::Blocking)
            | (TriggerAction::UpdateTimer { .. }, Kind::Timer)
    )
}

/// Runs the history; `l2_bits` is the RNG cell value used from call 3 onwards
/// (0 => L2 = 0, u64::MAX => L2 = 1). L1 is always 1. Returns the number of
/// limited actions returned by calls 2, 3 and 4.
fn run(kind: Kind, l2_bits: u64) -> [usize; 3] {
    let cell = Rc::new(Cell::new(u64::MAX));
    let machines = vec![machine(kind)];
    let t0 = Instant::now();
    let mut f = Framework::new(&machines, 0.0, 0.0, t0, CellRng(cell.clone())).unwrap();
    let mut t = t0;
    let mut step = |f: &mut Framework<&Vec<Machine>, CellRng>, e: TriggerEvent| -> usize {
        t += Duration::from_micros(1000);
        f.trigger_events(&[e], t)
            .filter(|a| is_limited_action(a, kind))
            .count()
    };

    // call 1: s0 -> s1
    assert_eq!(step(&mut f, TriggerEvent::NormalRecv), 0);
    // call 2: s1 -> S, stay #1 with L1 = 1: the action is returned
    let c2 = step(&mut f, TriggerEvent::NormalRecv);
    // every draw from here on (including the re-sampled limit L2) uses l2_bits
    cell.set(l2_bits);
    // call 3: self-transition + CounterZero round trip S -> T -> S (stay #2)
    let c3 = step(&mut f, TriggerEvent::NormalSent);
    // call 4: plain self-transition, reveals whether stay #2 has limit > 0
    let c4 = step(&mut f, TriggerEvent::NormalSent);
    [c2, c3, c4]
}

fn check(kind: Kind) {
    // control: L1 = 1, L2 = 1. The action is legitimately returned everywhere.
    assert_eq!(run(kind, u64::MAX), [1, 1, 1], "control run, {kind:?}");

    // L1 = 1, L2 = 0.
    let [c2, c3, c4] = run(kind, 0);
    assert_eq!(c2, 1, "stay #1 has limit 1, {kind:?}");
    // call 4 proves that the limit sampled for stay #2 is zero: a plain
    // self-transition with no completion reported returns nothing.
    assert_eq!(c4, 0, "stay #2 has limit 0, {kind:?}");
    // C07: "a sampled limit of zero yields no action". Stay #2 began inside
    // call 3 (re-entry from T), so call 3 must not return S's limited action.
    assert_eq!(
        c3, 0,
        "{kind:?}: stay #2 of S has a sampled limit of 0 (see call 4) but call 3, \
         in which that stay began, returned S's limited action"
    );
}

#[test]
fn c07_zero_limit_after_counterzero_round_trip_padding() {
    check(Kind::Padding);
}

#[test]
fn c07_zero_limit_after_counterzero_round_trip_blocking() {
    check(Kind::Blocking);
}

#[test]
fn c07_zero_limit_after_counterzero_round_trip_timer() {
    check(Kind::Timer);
}

/// The same history with an ordinary seeded PRNG: no scripted RNG involved.
/// For every seed, whenever call 4 shows that stay #2 has limit zero, call 3
/// (in which stay #2 began) must not have returned the limited action.
#[test]
fn c07_zero_limit_after_counterzero_round_trip_seeded() {
    use rand::rngs::StdRng;
    use rand::SeedableRng;

    let kind = Kind::Padding;
    let mut violations = vec![];
    for seed in 0..200u64 {
        let machines = vec![machine(kind)];
        let t0 = Instant::now();
        let mut f = Framework::new(&machines, 0.0, 0.0, t0, StdRng::seed_from_u64(seed)).unwrap();
        let mut t = t0;
        let mut counts = vec![];
        for e in [
            TriggerEvent::NormalRecv,
            TriggerEvent::NormalRecv,
            TriggerEvent::NormalSent,
            TriggerEvent::NormalSent,
        ] {
            t += Duration::from_micros(1000);
            counts.push(
                f.trigger_events(&[e], t)
                    .filter(|a| is_limited_action(a, kind))
                    .count(),
            );
        }
        if counts[3] == 0 && counts[2] != 0 {
            violations.push(seed);
        }
    }
    assert!(
        violations.is_empty(),
        "seeds where stay #2 has limit 0 yet its first call returned the action: {violations:?}"
    );
}

/// With the `verif` feature the runtime can be inspected directly: right after
/// call 3 the machine is in S with state_limit == 0 and the call returned S's
/// limited action.
#[cfg(feature = "verif")]
#[test]
fn c07_zero_limit_after_counterzero_round_trip_snapshot() {
    let kind = Kind::Padding;
    let cell = Rc::new(Cell::new(u64::MAX));
    let machines = vec![machine(kind)];
    let t0 = Instant::now();
    let mut f = Framework::new(&machines, 0.0, 0.0, t0, CellRng(cell.clone())).unwrap();
    let ms = Duration::from_micros(1000);
    let _ = f.trigger_events(&[TriggerEvent::NormalRecv], t0 + ms).count();
    let _ = f.trigger_events(&[TriggerEvent::NormalRecv], t0 + 2 * ms).count();
    cell.set(0);
    let n = f
        .trigger_events(&[TriggerEvent::NormalSent], t0 + 3 * ms)
        .filter(|a| is_limited_action(a, kind))
        .count();
    let snap = f.verif_snapshot();
    assert_eq!(snap.machines[0].0, 2, "machine is in S");
    assert_eq!(snap.machines[0].1, 0, "limit of the current stay is 0");
    assert_eq!(n, 0, "limit 0 yet the limited action was returned");
}
