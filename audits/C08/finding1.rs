// Belongs to: crates/maybenot/tests/ (crate `maybenot`)
//
// C08 finding 1: when a counter reaches zero in a batch AFTER an earlier event
// of the same trigger_events call already scheduled an action for the machine,
// the action of the entered state is silently dropped and the stale earlier
// action is returned, although the CounterZero transition scheduled nothing.

use std::time::Instant;

use enum_map::enum_map;
use maybenot::{
    action::Action,
    counter::{Counter, Operation},
    dist::{Dist, DistType},
    event::Event,
    state::{State, Trans},
    Framework, Machine, TriggerAction, TriggerEvent,
};

fn konst(v: f64) -> Dist {
    Dist::new(DistType::Uniform { low: v, high: v }, 0.0, 0.0)
}

fn timer(us: f64) -> Option<Action> {
    Some(Action::UpdateTimer {
        replace: false,
        duration: konst(us),
        limit: None,
    })
}

/// s0 --NormalSent--> s1 (A += 1, action UpdateTimer 111)
/// s1 --NormalRecv--> s2 (A -= 1, action UpdateTimer 222)
/// `s2_counter`: whether s2 carries the decrement (true) or no counter (false)
/// `cz_target`: CounterZero transition of s2 (None: no transition)
fn machine(s2_counter: bool, cz_target: Option<usize>) -> Machine {
    let s0 = State::new(enum_map! {
        Event::NormalSent => vec![Trans(1, 1.0)],
        _ => vec![],
    });
    let mut s1 = State::new(enum_map! {
        Event::NormalRecv => vec![Trans(2, 1.0)],
        _ => vec![],
    });
    s1.action = timer(111.0);
    s1.counter = (Some(Counter::new(Operation::Increment)), None);

    let mut s2 = State::new(enum_map! {
        Event::CounterZero => match cz_target { Some(t) => vec![Trans(t, 1.0)], None => vec![] },
        _ => vec![],
    });
    s2.action = timer(222.0);
    if s2_counter {
        s2.counter = (Some(Counter::new(Operation::Decrement)), None);
    }

    // s3: a state without any action, possible CounterZero target
    let s3 = State::new(enum_map! { _ => vec![] });

    Machine::new(0, 0.0, 0, 0.0, vec![s0, s1, s2, s3]).unwrap()
}

fn durations(m: &Machine, calls: &[&[TriggerEvent]]) -> Vec<Vec<u128>> {
    let machines = vec![m.clone()];
    let t = Instant::now();
    let mut f = Framework::new(&machines, 0.0, 0.0, t, rand::thread_rng()).unwrap();
    let mut out = vec![];
    for c in calls {
        out.push(
            f.trigger_events(c, t)
                .map(|a| match a {
                    TriggerAction::UpdateTimer { duration, .. } => duration.as_micros(),
                    _ => panic!("unexpected action"),
                })
                .collect(),
        );
    }
    out
}

#[test]
fn control_without_counter_later_event_replaces_earlier_action() {
    // no counter on s2: the action of the state entered last wins
    let m = machine(false, None);
    let got = durations(&m, &[&[TriggerEvent::NormalSent, TriggerEvent::NormalRecv]]);
    assert_eq!(got, vec![vec![222]]);
}

#[test]
fn control_split_calls_schedule_entered_states_action() {
    // same history, one event per call: s2's action is scheduled when A hits 0
    let m = machine(true, None);
    let got = durations(
        &m,
        &[&[TriggerEvent::NormalSent], &[TriggerEvent::NormalRecv]],
    );
    assert_eq!(got, vec![vec![111], vec![222]]);
}

#[test]
fn batch_counter_zero_without_transition_must_schedule_entered_states_action() {
    // A: 0 -> 1 (enter s1, schedules 111) -> 0 (enter s2) in ONE call. s2 has no
    // CounterZero transition, so nothing is scheduled by CounterZero and the
    // entered state's action (222) must be scheduled, replacing 111.
    let m = machine(true, None);
    let got = durations(&m, &[&[TriggerEvent::NormalSent, TriggerEvent::NormalRecv]]);
    assert_eq!(got, vec![vec![222]], "stale action of s1 returned instead of s2's");
}

#[test]
fn batch_counter_zero_to_actionless_state_must_schedule_entered_states_action() {
    // as above, but CounterZero moves the machine on to s3, which has no action:
    // again CounterZero scheduled nothing, so s2's action must be scheduled.
    let m = machine(true, Some(3));
    let got = durations(&m, &[&[TriggerEvent::NormalSent, TriggerEvent::NormalRecv]]);
    assert_eq!(got, vec![vec![222]], "stale action of s1 returned instead of s2's");
}

/// Two machines, ONE external event per call (the way maybenot-simulator drives
/// the framework): m0 enters s1 on NormalSent (A += 1, schedules 111); m1
/// signals on NormalSent; in the signal phase of the same call m0 moves on to s2
/// (A -= 1 -> 0, action 222, no CounterZero transition).
fn signal_setup(s2_counter: bool) -> Vec<Vec<u128>> {
    use maybenot::constants::STATE_SIGNAL;
    let s0 = State::new(enum_map! {
        Event::NormalSent => vec![Trans(1, 1.0)],
        _ => vec![],
    });
    let mut s1 = State::new(enum_map! {
        Event::Signal => vec![Trans(2, 1.0)],
        _ => vec![],
    });
    s1.action = timer(111.0);
    s1.counter = (None, Some(Counter::new(Operation::Increment)));
    let mut s2 = State::new(enum_map! { _ => vec![] });
    s2.action = timer(222.0);
    if s2_counter {
        s2.counter = (None, Some(Counter::new(Operation::Decrement)));
    }
    let m0 = Machine::new(0, 0.0, 0, 0.0, vec![s0, s1, s2]).unwrap();
    let m1 = Machine::new(
        0,
        0.0,
        0,
        0.0,
        vec![State::new(enum_map! {
            Event::NormalSent => vec![Trans(STATE_SIGNAL, 1.0)],
            _ => vec![],
        })],
    )
    .unwrap();

    let machines = vec![m0, m1];
    let t = Instant::now();
    let mut f = Framework::new(&machines, 0.0, 0.0, t, rand::thread_rng()).unwrap();
    let got = f
        .trigger_events(&[TriggerEvent::NormalSent], t)
        .map(|a| match a {
            TriggerAction::UpdateTimer {
                duration, machine, ..
            } => {
                assert_eq!(machine.into_raw(), 0);
                duration.as_micros()
            }
            _ => panic!("unexpected action"),
        })
        .collect();
    vec![got]
}

#[test]
fn control_signal_phase_without_counter() {
    assert_eq!(signal_setup(false), vec![vec![222]]);
}

#[test]
fn signal_phase_counter_b_zero_must_schedule_entered_states_action() {
    assert_eq!(
        signal_setup(true),
        vec![vec![222]],
        "stale action of s1 returned instead of s2's"
    );
}
