// Crate: maybenot  (place in crates/maybenot/tests/c05_finding1.rs)
//
// C05 finding 1: within one trigger_events() call, an action left in the
// per-machine slot by an EARLIER event of the same call is mistaken for an
// action scheduled by a LATER (nested CounterZero) transition. The action of
// the state entered by the later event is then silently not scheduled and the
// call returns the stale action of the earlier event.
//
// Run: cargo test --offline -p maybenot --test c05_finding1

use enum_map::enum_map;
use maybenot::action::Action;
use maybenot::counter::{Counter, Operation};
use maybenot::dist::{Dist, DistType};
use maybenot::event::Event;
use maybenot::state::{State, Trans};
use maybenot::{Framework, Machine, MachineId, TriggerAction, TriggerEvent};
use rand_core::{impls, Error, RngCore};
use std::time::{Duration, Instant};

/// Deterministic, clonable random stream (splitmix64).
#[derive(Clone)]
struct Sm(u64);
impl RngCore for Sm {
    fn next_u32(&mut self) -> u32 {
        (self.next_u64() >> 32) as u32
    }
    fn next_u64(&mut self) -> u64 {
        self.0 = self.0.wrapping_add(0x9E37_79B9_7F4A_7C15);
        let mut z = self.0;
        z = (z ^ (z >> 30)).wrapping_mul(0xBF58_476D_1CE4_E5B9);
        z = (z ^ (z >> 27)).wrapping_mul(0x94D0_49BB_1331_11EB);
        z ^ (z >> 31)
    }
    fn fill_bytes(&mut self, dest: &mut [u8]) {
        impls::fill_bytes_via_next(self, dest)
    }
    fn try_fill_bytes(&mut self, dest: &mut [u8]) -> Result<(), Error> {
        self.fill_bytes(dest);
        Ok(())
    }
}

fn constant(v: f64) -> Dist {
    Dist::new(DistType::Uniform { low: v, high: v }, 0.0, 0.0)
}

fn pad(timeout: f64) -> Option<Action> {
    Some(Action::SendPadding {
        bypass: false,
        replace: false,
        timeout: constant(timeout),
        limit: None,
    })
}

fn pad_action(timeout_us: u64, machine: usize) -> TriggerAction {
    TriggerAction::SendPadding {
        timeout: Duration::from_micros(timeout_us),
        bypass: false,
        replace: false,
        machine: MachineId::from_raw(machine),
    }
}

/// Two states, constant distributions, probabilities 1.0:
///  state 0: NormalRecv -> 0, NormalSent -> 1; SendPadding(timeout 1us);
///           counter A += 1 (only if `count` is set)
///  state 1: SendPadding(timeout 2us); counter A -= 1
/// No state has a CounterZero transition.
fn machine(count: bool) -> Machine {
    let mut s0 = State::new(enum_map! {
        Event::NormalRecv => vec![Trans(0, 1.0)],
        Event::NormalSent => vec![Trans(1, 1.0)],
        _ => vec![],
    });
    s0.action = pad(1.0);
    if count {
        s0.counter = (Some(Counter::new(Operation::Increment)), None);
    }
    let mut s1 = State::new(enum_map! { _ => vec![] });
    s1.action = pad(2.0);
    s1.counter = (Some(Counter::new(Operation::Decrement)), None);
    // generous padding budget, no fractions: limits never interfere
    Machine::new(1_000_000, 0.0, 0, 0.0, vec![s0, s1]).unwrap()
}

fn run(m: &[Machine], calls: &[&[TriggerEvent]]) -> Vec<Vec<TriggerAction>> {
    let t0 = Instant::now();
    let mut f = Framework::new(m, 0.0, 0.0, t0, Sm(7)).unwrap();
    calls
        .iter()
        .map(|evs| f.trigger_events(evs, t0).cloned().collect())
        .collect()
}

/// Control: without the counter reaching zero, the later event's action
/// replaces the earlier one, as documented for batches of events.
#[test]
fn control_later_event_replaces_earlier_action() {
    let m = vec![machine(false)];
    let out = run(&m, &[&[TriggerEvent::NormalRecv, TriggerEvent::NormalSent]]);
    assert_eq!(out[0], vec![pad_action(2, 0)]);
}

/// Control: the same two events in two calls: the transition to state 1
/// (whose counter update raises an unanswered CounterZero) schedules the
/// action of state 1.
#[test]
fn control_two_calls() {
    let m = vec![machine(true)];
    let out = run(
        &m,
        &[&[TriggerEvent::NormalRecv], &[TriggerEvent::NormalSent]],
    );
    assert_eq!(out[0], vec![pad_action(1, 0)]);
    assert_eq!(out[1], vec![pad_action(2, 0)]);
}

/// The defect: the same events in ONE call. NormalRecv is processed first
/// (0 -> 0, action "pad in 1us", counter A = 1). NormalSent is processed
/// second (0 -> 1): the machine is now in state 1, counter A = 0, the internal
/// CounterZero event is handled immediately and does nothing (state 1 has no
/// CounterZero transition). Entering state 1 prescribes "pad in 2us", which
/// must replace the action of the earlier event. Instead the call returns the
/// stale "pad in 1us" of state 0.
#[test]
fn finding_stale_action_of_earlier_event_wins() {
    let m = vec![machine(true)];
    let out = run(&m, &[&[TriggerEvent::NormalRecv, TriggerEvent::NormalSent]]);
    assert_eq!(
        out[0],
        vec![pad_action(2, 0)],
        "the machine entered state 1 on the last event; its action (2us) is prescribed"
    );
}

/// Same root cause through the signal round at the end of the call: machine 0
/// signals on NormalSent; machine 1 handles NormalSent (action 1us, A = 1) and
/// then, in the signal round, moves to state 1 (A = 0, CounterZero unanswered).
#[test]
fn finding_stale_action_blocks_signal_round_action() {
    let sig = State::new(enum_map! {
        Event::NormalSent => vec![Trans(maybenot::constants::STATE_SIGNAL, 1.0)],
        _ => vec![],
    });
    let m0 = Machine::new(0, 0.0, 0, 0.0, vec![sig]).unwrap();

    let mut s0 = State::new(enum_map! {
        Event::NormalSent => vec![Trans(0, 1.0)],
        Event::Signal => vec![Trans(1, 1.0)],
        _ => vec![],
    });
    s0.action = pad(1.0);
    s0.counter = (Some(Counter::new(Operation::Increment)), None);
    let mut s1 = State::new(enum_map! { _ => vec![] });
    s1.action = pad(2.0);
    s1.counter = (Some(Counter::new(Operation::Decrement)), None);
    let m1 = Machine::new(1_000_000, 0.0, 0, 0.0, vec![s0, s1]).unwrap();

    let m = vec![m0, m1];
    let out = run(&m, &[&[TriggerEvent::NormalSent]]);
    assert_eq!(
        out[0],
        vec![pad_action(2, 1)],
        "machine 1 entered state 1 in the signal round; its action (2us) is prescribed"
    );
}
