// Belongs to: crates/maybenot/tests/  (crate `maybenot`)
//
// C05 finding 1: in a call with several events, the limit-reached path of
// decrement_limit() erases an action that an EARLIER event of the same call
// scheduled for the machine, although the later event itself scheduled nothing.
//
// Machine (1 machine, 2 states, probabilities 1.0, constant distributions):
//   S0: no action;                       NormalSent -> S1 (1.0)
//   S1: SendPadding{timeout 7us, limit 1}; no transitions at all
// History: ONE call [NormalSent, PaddingSent{machine 0}] at the start time.
//
// `batch_keeps_action_of_earlier_event` FAILS on the unmodified tree.
// The other tests are controls and pass.

use enum_map::enum_map;
use maybenot::action::Action;
use maybenot::dist::{Dist, DistType};
use maybenot::event::Event;
use maybenot::state::{State, Trans};
use maybenot::{Framework, Machine, MachineId, TriggerAction, TriggerEvent};
use rand::rngs::mock::StepRng;
use std::time::{Duration, Instant};

fn c(v: f64) -> Dist {
    Dist::new(DistType::Uniform { low: v, high: v }, 0.0, 0.0)
}

fn machine(limit: f64) -> Machine {
    let s0 = State::new(enum_map! {
        Event::NormalSent => vec![Trans(1, 1.0)],
        _ => vec![],
    });
    let mut s1 = State::new(enum_map! { _ => vec![] });
    s1.action = Some(Action::SendPadding {
        bypass: false,
        replace: false,
        timeout: c(7.0),
        limit: Some(c(limit)),
    });
    // generous budget, no fraction limits: only the state limit plays a role
    Machine::new(1000, 0.0, 0, 0.0, vec![s0, s1]).unwrap()
}

fn pad7() -> TriggerAction {
    TriggerAction::SendPadding {
        timeout: Duration::from_micros(7),
        bypass: false,
        replace: false,
        machine: MachineId::from_raw(0),
    }
}

fn sp() -> TriggerEvent {
    TriggerEvent::PaddingSent {
        machine: MachineId::from_raw(0),
    }
}

/// FAILS: the batch returns no action at all.
#[test]
fn batch_keeps_action_of_earlier_event() {
    let m = vec![machine(1.0)];
    let t0 = Instant::now();
    let mut f = Framework::new(&m, 0.0, 0.0, t0, StepRng::new(0, 1)).unwrap();
    let got: Vec<TriggerAction> = f
        .trigger_events(&[TriggerEvent::NormalSent, sp()], t0)
        .cloned()
        .collect();
    // event 1 enters S1 and schedules its action; event 2 has no transition in
    // S1, schedules nothing, and therefore cannot "replace" the action
    assert_eq!(got, vec![pad7()], "action scheduled by event 1 was erased by event 2");
}

/// control: the same two events in two calls -> the action is returned
#[test]
fn control_separate_calls() {
    let m = vec![machine(1.0)];
    let t0 = Instant::now();
    let mut f = Framework::new(&m, 0.0, 0.0, t0, StepRng::new(0, 1)).unwrap();
    let a: Vec<TriggerAction> = f.trigger_events(&[TriggerEvent::NormalSent], t0).cloned().collect();
    let b: Vec<TriggerAction> = f.trigger_events(&[sp()], t0).cloned().collect();
    assert_eq!(a, vec![pad7()]);
    assert_eq!(b, vec![]);
}

/// control: with limit 2 the very same batch keeps the action, so a later
/// event without a transition does not in general remove a pending action
#[test]
fn control_limit_two() {
    let m = vec![machine(2.0)];
    let t0 = Instant::now();
    let mut f = Framework::new(&m, 0.0, 0.0, t0, StepRng::new(0, 1)).unwrap();
    let got: Vec<TriggerAction> = f
        .trigger_events(&[TriggerEvent::NormalSent, sp()], t0)
        .cloned()
        .collect();
    assert_eq!(got, vec![pad7()]);
}

/// control: no counters and no signals are involved, so neither documented
/// batch rule (once-per-call CounterZero, one signal round) explains it; an
/// unrelated later event (TimerEnd) leaves the pending action alone
#[test]
fn control_unrelated_later_event() {
    let m = vec![machine(1.0)];
    let t0 = Instant::now();
    let mut f = Framework::new(&m, 0.0, 0.0, t0, StepRng::new(0, 1)).unwrap();
    let got: Vec<TriggerAction> = f
        .trigger_events(
            &[
                TriggerEvent::NormalSent,
                TriggerEvent::TimerEnd {
                    machine: MachineId::from_raw(0),
                },
            ],
            t0,
        )
        .cloned()
        .collect();
    assert_eq!(got, vec![pad7()]);
}
