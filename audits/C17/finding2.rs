// Belongs to: crates/maybenot-simulator/tests/
//
// C17 finding 2 (same root cause as finding 1, but at the due instant, with
// timeout 0): when a BlockOutgoing with the bypass flag comes due while a
// non-bypassable block is active, pick_next() applies it (the block becomes
// bypassable) and empties the action-timer slot, but only *queues* its
// BlockingBegin. The bypass padding packet that this releases is ordered before
// the BlockingBegin (TunnelSent sorts before BlockingBegin at equal time, and it
// may also carry an earlier time stamp), so the framework sees TunnelSent first.
// The Cancel / newer action it returns for the same machine finds the slot
// already empty and supersedes nothing: BlockingBegin is then reported for an
// action that is no longer the most recent one of that machine.
//
// Deterministic, no integration delays, client side only, two machines.

use std::time::{Duration, Instant};

use enum_map::enum_map;
use maybenot::{
    action::{Action, Timer},
    dist::{Dist, DistType},
    event::Event,
    state::{State, Trans},
    Framework, Machine, TriggerAction, TriggerEvent,
};
use maybenot_simulator::{network::Network, parse_trace, sim_advanced, SimEvent, SimulatorArgs};

fn c(v: f64) -> Dist {
    Dist::new(DistType::Uniform { low: v, high: v }, 0.0, 0.0)
}

/// m0: on NormalSent, block outgoing (NOT bypassable) for 1000us, at once.
fn blocker() -> Machine {
    let s0 = State::new(enum_map! { Event::NormalSent => vec![Trans(1, 1.0)], _ => vec![] });
    let mut s1 = State::new(enum_map! { _ => vec![] });
    s1.action = Some(Action::BlockOutgoing {
        bypass: false,
        replace: false,
        timeout: c(0.0),
        duration: c(1000.0),
        limit: None,
    });
    Machine::new(0, 0.0, 0, 0.0, vec![s0, s1]).unwrap()
}

/// m1: on BlockingBegin (of m0), send one padding packet with the bypass flag
/// after 1us; on its PaddingSent, schedule a bypassable, replacing block with
/// timeout 0; on TunnelSent after that, go to a state whose action is `then`.
fn victim(then: Action) -> Machine {
    let s0 = State::new(enum_map! { Event::BlockingBegin => vec![Trans(1, 1.0)], _ => vec![] });
    let mut s1 = State::new(enum_map! { Event::PaddingSent => vec![Trans(2, 1.0)], _ => vec![] });
    s1.action = Some(Action::SendPadding {
        bypass: true,
        replace: false,
        timeout: c(1.0),
        limit: None,
    });
    let mut s2 = State::new(enum_map! { Event::TunnelSent => vec![Trans(3, 1.0)], _ => vec![] });
    s2.action = Some(Action::BlockOutgoing {
        bypass: true,
        replace: true,
        timeout: c(0.0),
        duration: c(50.0),
        limit: None,
    });
    let mut s3 = State::new(enum_map! { _ => vec![] });
    s3.action = Some(then);
    Machine::new(0, 0.0, 0, 0.0, vec![s0, s1, s2, s3]).unwrap()
}

#[derive(Clone, Copy, Debug, PartialEq)]
enum Kind {
    Pad,
    Block,
}

/// Reference model of the property: replays the client events of the trace (in
/// the order the simulator processed them) into a fresh framework and tracks
/// the one pending action timer per machine.
fn check(trace: &[SimEvent], machines: &[Machine], first: Instant) -> Vec<String> {
    let mut f = Framework::new(machines, 0.0, 0.0, first, rand::thread_rng()).unwrap();
    let mut pend: Vec<Option<(Kind, Instant)>> = vec![None; machines.len()];
    let mut out = vec![];
    let us = |t: Instant| t.duration_since(first).as_micros();
    for e in trace.iter().filter(|e| e.client) {
        for (m, p) in pend.iter().enumerate() {
            if let Some((k, due)) = p {
                if *due < e.time {
                    out.push(format!("m{m}: {k:?} due {}us did not fire", us(*due)));
                }
            }
        }
        let fire = match e.event {
            TriggerEvent::PaddingSent { machine } => Some((Kind::Pad, machine.into_raw())),
            TriggerEvent::BlockingBegin { machine } => Some((Kind::Block, machine.into_raw())),
            _ => None,
        };
        if let Some((k, m)) = fire {
            match pend[m] {
                // fires exactly when due: the timer is consumed
                Some((pk, due)) if pk == k && due == e.time => pend[m] = None,
                other => out.push(format!(
                    "m{m}: {k:?} reported at {}us, but the pending action timer of m{m} was {:?}",
                    us(e.time),
                    other.map(|(k, d)| (k, us(d)))
                )),
            }
        }
        let actions: Vec<TriggerAction> =
            f.trigger_events(&[e.event.clone()], e.time).cloned().collect();
        for a in actions {
            println!("  {:>5}us {:<40} -> {:?}", us(e.time), format!("{:?}", e.event), a);
            match a {
                TriggerAction::Cancel { machine, timer } => {
                    if timer != Timer::Internal {
                        pend[machine.into_raw()] = None;
                    }
                }
                TriggerAction::SendPadding {
                    timeout, machine, ..
                } => pend[machine.into_raw()] = Some((Kind::Pad, e.time + timeout)),
                TriggerAction::BlockOutgoing {
                    timeout, machine, ..
                } => pend[machine.into_raw()] = Some((Kind::Block, e.time + timeout)),
                TriggerAction::UpdateTimer { .. } => {}
            }
        }
    }
    out
}

fn run(then: Action) -> (Vec<SimEvent>, Vec<Machine>, Instant) {
    let machines = vec![blocker(), victim(then)];
    let network = Network::new(Duration::from_millis(10), None);
    // a single normal packet sent by the client at time 0
    let mut sq = parse_trace("0,s\n", network);
    let first = sq.get_first_time().unwrap();
    let mut args = SimulatorArgs::new(network, 0, false);
    args.continue_after_all_normal_packets_processed = true;
    args.max_sim_iterations = 200;
    args.insecure_rng_seed = Some(1);
    let trace = sim_advanced(&machines, &[], &mut sq, &args);
    for e in trace.iter().filter(|e| e.client) {
        println!(
            "{:>5}us {:?} padding={}",
            e.time.duration_since(first).as_micros(),
            e.event,
            e.contains_padding
        );
    }
    (trace, machines, first)
}

#[test]
fn cancel_at_due_instant_before_blocking_begin_is_reported() {
    let (trace, machines, first) = run(Action::Cancel {
        timer: Timer::Action,
    });
    // On the unmodified tree the client sees, all at 1us: PaddingSent{m1},
    // TunnelSent (-> Cancel{m1, Action}), BlockingBegin{m1}.
    let violations = check(&trace, &machines, first);
    assert!(violations.is_empty(), "{violations:#?}");
}

#[test]
fn newer_action_at_due_instant_before_blocking_begin_is_reported() {
    let (trace, machines, first) = run(Action::SendPadding {
        bypass: false,
        replace: false,
        timeout: c(500.0),
        limit: None,
    });
    let violations = check(&trace, &machines, first);
    assert!(violations.is_empty(), "{violations:#?}");
}
