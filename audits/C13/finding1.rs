// Crate: maybenot  (place in crates/maybenot/tests/finding1.rs)
//
// C13 finding 1: sampling a validated Binomial distribution on the BTPE path
// (trials * min(p, 1-p) >= 10, e.g. trials 20, probability 0.5) panics with
// "assertion failed: x < (core::i64::MAX as f64)" when the first random word
// selects the right exponential tail (e.g. all-ones) and the second word is
// all-zero (v == 0.0, ln(v) == -inf, x_r - ln(v)/lambda_r == +inf).
//
// This is NOT limited to huge trial counts: it happens for every parameter
// pair that takes the BTPE path, including trials = 20.
//
// Both tests FAIL on the unmodified tree (the panic escapes sample() and
// Framework::trigger_events()).

use enum_map::enum_map;
use maybenot::counter::{Counter, Operation};
use maybenot::dist::{Dist, DistType};
use maybenot::event::Event;
use maybenot::state::{State, Trans};
use maybenot::{Framework, Machine, TriggerEvent};
use rand::rngs::StdRng;
use rand::{RngCore, SeedableRng};
use std::time::Instant;

/// A short prefix of extreme words followed by a fair pseudo-random stream.
struct PrefixRng {
    prefix: Vec<u64>,
    pos: usize,
    fair: StdRng,
}

impl PrefixRng {
    fn new(prefix: &[u64]) -> Self {
        PrefixRng {
            prefix: prefix.to_vec(),
            pos: 0,
            fair: StdRng::seed_from_u64(13),
        }
    }
}

impl RngCore for PrefixRng {
    fn next_u32(&mut self) -> u32 {
        self.next_u64() as u32
    }
    fn next_u64(&mut self) -> u64 {
        if self.pos < self.prefix.len() {
            self.pos += 1;
            self.prefix[self.pos - 1]
        } else {
            self.fair.next_u64()
        }
    }
    fn fill_bytes(&mut self, dest: &mut [u8]) {
        for chunk in dest.chunks_mut(8) {
            let w = self.next_u64().to_le_bytes();
            chunk.copy_from_slice(&w[..chunk.len()]);
        }
    }
    fn try_fill_bytes(&mut self, dest: &mut [u8]) -> Result<(), rand::Error> {
        self.fill_bytes(dest);
        Ok(())
    }
}

const ALL_ONE: u64 = u64::MAX;
const ALL_ZERO: u64 = 0;

#[test]
fn binomial_btpe_small_trials_panics_on_one_then_zero() {
    // every pair below is accepted by validation and takes the BTPE path
    for &(trials, probability) in &[
        (20u64, 0.5f64),
        (100, 0.3),
        (100, 0.7),
        (1000, 0.01),
        (1_000_000, 1e-5),
    ] {
        for &max in &[0.0, 7.0] {
            let d = Dist::new(
                DistType::Binomial {
                    trials,
                    probability,
                },
                0.0,
                max,
            );
            assert!(d.validate().is_ok());

            let r = std::panic::catch_unwind(|| {
                let mut rng = PrefixRng::new(&[ALL_ONE, ALL_ZERO]);
                d.sample(&mut rng)
            });
            match r {
                Ok(v) => {
                    assert!(v.is_finite() && v >= 0.0 && v <= trials as f64);
                    if max > 0.0 {
                        assert!(v <= max);
                    }
                }
                Err(_) => panic!(
                    "C13 violated: sample() panicked for validated {:?} with RNG prefix [all-one, all-zero]",
                    d
                ),
            }
        }
    }
}

#[test]
fn framework_crashes_through_validated_counter_dist() {
    // one state, self-transition on NormalSent, counter A += Binomial(20, 0.5)
    let mut s0 = State::new(enum_map! {
        Event::NormalSent => vec![Trans(0, 1.0)],
        _ => vec![],
    });
    s0.counter = (
        Some(Counter::new_dist(
            Operation::Increment,
            Dist::new(
                DistType::Binomial {
                    trials: 20,
                    probability: 0.5,
                },
                0.0,
                0.0,
            ),
        )),
        None,
    );
    let m = Machine::new(0, 0.0, 0, 0.0, vec![s0]).expect("machine passes validation");
    let machines = vec![m];

    // word 1 is consumed by the transition sampling (any value works), words
    // 2 and 3 by the counter distribution
    let rng = PrefixRng::new(&[ALL_ZERO, ALL_ONE, ALL_ZERO]);
    let now = Instant::now();
    let mut f = Framework::new(&machines, 0.0, 0.0, now, rng).unwrap();

    let r = std::panic::catch_unwind(std::panic::AssertUnwindSafe(|| {
        f.trigger_events(&[TriggerEvent::NormalSent], now).count()
    }));
    assert!(
        r.is_ok(),
        "C13 violated: a machine that passed validation crashed Framework::trigger_events through its counter distribution"
    );
}
