// Crate: maybenot  (place in crates/maybenot/tests/finding2.rs)
//
// C13 finding 2: Dist::sample() returns +infinity (not a real number) for
// distributions accepted by validation whenever no maximum is set, even with
// entirely finite and modest parameters and a plain fair random stream.
//
// The test FAILS on the unmodified tree.

use maybenot::counter::{Counter, Operation};
use maybenot::dist::{Dist, DistType};
use rand::rngs::StdRng;
use rand::SeedableRng;

#[test]
fn validated_dists_without_max_return_infinity() {
    let cases = [
        // all parameters finite, start 0, max unset (0.0)
        Dist::new(DistType::LogNormal { mu: 710.0, sigma: 0.0 }, 0.0, 0.0),
        Dist::new(DistType::LogNormal { mu: 0.0, sigma: 1000.0 }, 0.0, 0.0),
        Dist::new(DistType::Pareto { scale: 1.0, shape: 0.001 }, 0.0, 0.0),
        Dist::new(DistType::Weibull { scale: 1.0, shape: 0.001 }, 0.0, 0.0),
        Dist::new(DistType::Gamma { scale: f64::MAX, shape: 2.0 }, 0.0, 0.0),
        Dist::new(DistType::Normal { mean: f64::MAX, stdev: f64::MAX }, 0.0, 0.0),
        Dist::new(DistType::Uniform { low: f64::MAX, high: f64::MAX }, f64::MAX, 0.0),
        // corners named in the quantifier: infinite start, NaN max
        Dist::new(DistType::Uniform { low: 1.0, high: 1.0 }, f64::INFINITY, 0.0),
        Dist::new(DistType::Uniform { low: 1.0, high: 1.0 }, f64::INFINITY, f64::NAN),
        Dist::new(DistType::Normal { mean: f64::INFINITY, stdev: 1.0 }, 0.0, 0.0),
    ];

    let mut offenders = vec![];
    for d in cases {
        assert!(d.validate().is_ok(), "{:?} must be accepted by validation", d);
        // also accepted as part of a counter
        assert!(Counter::new_dist(Operation::Set, d).validate().is_ok());

        let mut rng = StdRng::seed_from_u64(13);
        let mut n_inf = 0;
        for _ in 0..100 {
            let v = d.sample(&mut rng);
            assert!(!v.is_nan() && v >= 0.0);
            if v.is_infinite() {
                n_inf += 1;
            }
        }
        if n_inf > 0 {
            offenders.push(format!("{:?}: {} of 100 samples were +inf", d, n_inf));
        }
    }
    assert!(
        offenders.is_empty(),
        "C13 violated: sampled value is not a real number:\n{}",
        offenders.join("\n")
    );
}
