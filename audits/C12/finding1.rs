// C12 finding 1 -- belongs in crates/maybenot/tests/
//
// State::validate() adds the probabilities of one event in f32 and compares the
// *rounded* f32 sum with 1.0. A transition vector whose exact (real-number) sum
// exceeds 1 is therefore accepted whenever every partial sum rounds back to <= 1.0,
// and whether a given set of transitions is accepted depends on the order in which
// the transitions are listed. Machine::new, Machine::from_str and Framework::new all
// share the judgement, so all three accept such machines.
//
// Every assertion below states what property C12 requires ("each per-event sum at
// most 1"); each test FAILS on the unmodified tree.

use enum_map::enum_map;
use maybenot::constants::{STATE_END, STATE_SIGNAL};
use maybenot::event::Event;
use maybenot::state::{State, Trans};
use maybenot::{Framework, Machine};
use std::str::FromStr;
use std::time::Instant;

/// exact sum: every f32 is exactly representable as f64 and the sums used here need far
/// fewer than 53 significant bits, so the f64 sum is the exact real-number sum.
fn exact_sum(m: &Machine, state: usize, e: Event) -> f64 {
    m.states[state].get_transitions()[e]
        .iter()
        .map(|t| t.1 as f64)
        .sum()
}

fn noop_state() -> State {
    State::new(enum_map! { _ => vec![] })
}

/// Smallest case: one certain transition plus a second one with probability 2^-24
/// (a normal f32, half an ulp of 1.0). Exact sum = 1 + 2^-24 > 1.
#[test]
fn sum_one_plus_half_ulp_is_rejected() {
    let tiny = f32::EPSILON / 2.0; // 2^-24
    let s0 = State::new(enum_map! {
        Event::NormalSent => vec![Trans(0, 1.0), Trans(1, tiny)],
        _ => vec![],
    });
    let r = Machine::new(0, 0.0, 0, 0.0, vec![s0, noop_state()]);
    if let Ok(m) = &r {
        println!("accepted with exact sum {:.12}", exact_sum(m, 0, Event::NormalSent));
    }
    assert!(r.is_err(), "per-event sum 1 + 2^-24 > 1 was accepted by Machine::new");
}

/// The same with a subnormal probability (named in the quantifier).
#[test]
fn sum_one_plus_subnormal_is_rejected() {
    let sub = f32::from_bits(1); // 1.4e-45, the smallest positive subnormal
    let s0 = State::new(enum_map! {
        Event::NormalSent => vec![Trans(STATE_END, 1.0), Trans(STATE_SIGNAL, sub)],
        _ => vec![],
    });
    let r = Machine::new(0, 0.0, 0, 0.0, vec![s0]);
    assert!(r.is_err(), "per-event sum 1 + 2^-149 > 1 was accepted by Machine::new");
}

/// The excess is not bounded by one rounding error: once the running f32 sum has reached
/// 1.0 every further probability <= 2^-24 is absorbed. With N extra transitions the
/// accepted exact sum is 1 + N * 2^-24 (here N = 20_001 -> about 1.0012).
#[test]
fn excess_grows_with_number_of_transitions_and_depends_on_order() {
    let tiny = f32::EPSILON / 2.0; // 2^-24
    let n = 20_000usize; // keeps the encoding below the 1 MB decode limit
    let mut fwd = vec![Trans(0, 0.5), Trans(1, 0.5)];
    for i in 2..n {
        fwd.push(Trans(i, tiny));
    }
    fwd.push(Trans(STATE_END, tiny));
    fwd.push(Trans(STATE_SIGNAL, tiny));
    fwd.push(Trans(n, tiny)); // state n exists below
    let mut rev = fwd.clone();
    rev.reverse();

    let build = |v: Vec<Trans>| {
        let mut states = vec![State::new(enum_map! {
            Event::NormalSent => v.clone(),
            _ => vec![],
        })];
        for _ in 0..n {
            states.push(noop_state());
        }
        Machine::new(0, 0.0, 0, 0.0, states)
    };
    let a = build(fwd);
    let b = build(rev);
    println!("large first: accepted={}, small first: accepted={}", a.is_ok(), b.is_ok());
    if let Ok(m) = &a {
        let s = exact_sum(m, 0, Event::NormalSent);
        println!("accepted with exact per-event sum {s}");
        // the machine also passes the two other judgements
        let again = Machine::from_str(&m.serialize());
        println!("from_str accepts the encoding: {}", again.is_ok());
        let f = Framework::new(vec![m.clone()], 0.0, 0.0, Instant::now(), rand::thread_rng());
        println!("Framework::new accepts it: {}", f.is_ok());
    }
    // the same set of transitions must get the same verdict in any order ...
    assert_eq!(a.is_ok(), b.is_ok(), "verdict depends on the order of the transitions");
    // ... and that verdict must be a rejection, the exact sum being about 1.0012
    assert!(a.is_err(), "per-event sum 1.0012 was accepted by Machine::new");
}

/// A byte encoding that decodes to such a machine is accepted by from_str as well.
#[test]
fn from_str_rejects_encoding_with_sum_above_one() {
    let tiny = f32::EPSILON / 2.0;
    let s0 = State::new(enum_map! {
        Event::PaddingRecv => vec![Trans(0, 0.5), Trans(1, 0.5), Trans(STATE_END, tiny), Trans(STATE_SIGNAL, tiny)],
        _ => vec![],
    });
    // assemble without Machine::new so that only from_str judges the bytes
    let m = Machine {
        allowed_padding_packets: 0,
        max_padding_frac: 0.0,
        allowed_blocked_microsec: 0,
        max_blocking_frac: 0.0,
        states: vec![s0, noop_state()],
    };
    let exact = exact_sum(&m, 0, Event::PaddingRecv);
    assert!(exact > 1.0);
    let r = Machine::from_str(&m.serialize());
    assert!(r.is_err(), "from_str accepted an encoding whose per-event sum is {exact:.10}");
}
