// C12 finding 2 -- belongs in crates/maybenot/tests/
//
// Dist::validate() delegates most parameter checks to the rand_distr constructors and
// never looks at Dist::start / Dist::max. As a result NaN and +-infinity are accepted
// for several distribution parameters (Normal.mean, LogNormal.mu, SkewNormal.location,
// Dist.start, Dist.max: NaN and +-inf; Pareto/Weibull/Gamma/Beta scale/shape/alpha/beta:
// +inf), although the Uniform arm of the very same function rejects NaN and infinities
// explicitly. Machine::new, Machine::from_str and Framework::new all accept machines
// carrying such distributions.
//
// Property C12: "accepted machines have ... only distributions whose parameters are
// valid". The assertions state that requirement; the tests FAIL on the unmodified tree.

use enum_map::enum_map;
use maybenot::action::Action;
use maybenot::counter::{Counter, Operation};
use maybenot::dist::{Dist, DistType};
use maybenot::event::Event;
use maybenot::state::{State, Trans};
use maybenot::{Framework, Machine};
use std::str::FromStr;
use std::time::Instant;

const NAN: f64 = f64::NAN;
const INF: f64 = f64::INFINITY;

fn machine_with(d: Dist) -> Result<Machine, maybenot::Error> {
    let mut s0 = State::new(enum_map! {
        Event::NormalSent => vec![Trans(0, 1.0)],
        _ => vec![],
    });
    // the distribution is used in every role a distribution can have
    s0.action = Some(Action::BlockOutgoing {
        bypass: false,
        replace: false,
        timeout: d,
        duration: d,
        limit: Some(d),
    });
    s0.counter = (Some(Counter::new_dist(Operation::Set, d)), None);
    Machine::new(0, 0.0, 0, 0.0, vec![s0])
}

/// returns the names of the cases that every judgement accepted
fn accepted(cases: Vec<(&'static str, Dist)>) -> Vec<&'static str> {
    let mut out = vec![];
    for (name, d) in cases {
        let v = d.validate().is_ok();
        let m = machine_with(d);
        let new_ok = m.is_ok();
        let (mut str_ok, mut fw_ok) = (false, false);
        if let Ok(m) = m {
            str_ok = Machine::from_str(&m.serialize()).is_ok();
            fw_ok = Framework::new(vec![m], 0.0, 0.0, Instant::now(), rand::thread_rng()).is_ok();
        }
        println!("{name:32} Dist::validate={v} Machine::new={new_ok} from_str={str_ok} Framework::new={fw_ok}");
        if v && new_ok && str_ok && fw_ok {
            out.push(name);
        }
    }
    out
}

fn d(dist: DistType) -> Dist {
    Dist::new(dist, 0.0, 0.0)
}

#[test]
fn nan_distribution_parameters_are_rejected() {
    let one = DistType::Uniform { low: 1.0, high: 1.0 };
    let acc = accepted(vec![
        ("Uniform.low=NaN", d(DistType::Uniform { low: NAN, high: 1.0 })),
        ("Uniform.high=NaN", d(DistType::Uniform { low: 1.0, high: NAN })),
        ("Normal.mean=NaN", d(DistType::Normal { mean: NAN, stdev: 1.0 })),
        ("Normal.stdev=NaN", d(DistType::Normal { mean: 1.0, stdev: NAN })),
        ("SkewNormal.location=NaN", d(DistType::SkewNormal { location: NAN, scale: 1.0, shape: 1.0 })),
        ("SkewNormal.scale=NaN", d(DistType::SkewNormal { location: 1.0, scale: NAN, shape: 1.0 })),
        ("SkewNormal.shape=NaN", d(DistType::SkewNormal { location: 1.0, scale: 1.0, shape: NAN })),
        ("LogNormal.mu=NaN", d(DistType::LogNormal { mu: NAN, sigma: 1.0 })),
        ("LogNormal.sigma=NaN", d(DistType::LogNormal { mu: 1.0, sigma: NAN })),
        ("Binomial.probability=NaN", d(DistType::Binomial { trials: 10, probability: NAN })),
        ("Geometric.probability=NaN", d(DistType::Geometric { probability: NAN })),
        ("Pareto.scale=NaN", d(DistType::Pareto { scale: NAN, shape: 1.0 })),
        ("Pareto.shape=NaN", d(DistType::Pareto { scale: 1.0, shape: NAN })),
        ("Poisson.lambda=NaN", d(DistType::Poisson { lambda: NAN })),
        ("Weibull.scale=NaN", d(DistType::Weibull { scale: NAN, shape: 1.0 })),
        ("Weibull.shape=NaN", d(DistType::Weibull { scale: 1.0, shape: NAN })),
        ("Gamma.scale=NaN", d(DistType::Gamma { scale: NAN, shape: 1.0 })),
        ("Gamma.shape=NaN", d(DistType::Gamma { scale: 1.0, shape: NAN })),
        ("Beta.alpha=NaN", d(DistType::Beta { alpha: NAN, beta: 1.0 })),
        ("Beta.beta=NaN", d(DistType::Beta { alpha: 1.0, beta: NAN })),
        ("Dist.start=NaN", Dist::new(one, NAN, 0.0)),
        ("Dist.max=NaN", Dist::new(one, 0.0, NAN)),
    ]);
    assert!(acc.is_empty(), "NaN accepted as a distribution parameter: {acc:?}");
}

#[test]
fn infinite_distribution_parameters_are_rejected() {
    let one = DistType::Uniform { low: 1.0, high: 1.0 };
    let acc = accepted(vec![
        ("Uniform.high=inf", d(DistType::Uniform { low: 1.0, high: INF })),
        ("Normal.mean=inf", d(DistType::Normal { mean: INF, stdev: 1.0 })),
        ("Normal.mean=-inf", d(DistType::Normal { mean: -INF, stdev: 1.0 })),
        ("Normal.stdev=inf", d(DistType::Normal { mean: 1.0, stdev: INF })),
        ("SkewNormal.location=inf", d(DistType::SkewNormal { location: INF, scale: 1.0, shape: 1.0 })),
        ("SkewNormal.scale=inf", d(DistType::SkewNormal { location: 1.0, scale: INF, shape: 1.0 })),
        ("SkewNormal.shape=inf", d(DistType::SkewNormal { location: 1.0, scale: 1.0, shape: INF })),
        ("LogNormal.mu=inf", d(DistType::LogNormal { mu: INF, sigma: 1.0 })),
        ("LogNormal.sigma=inf", d(DistType::LogNormal { mu: 1.0, sigma: INF })),
        ("Pareto.scale=inf", d(DistType::Pareto { scale: INF, shape: 1.0 })),
        ("Pareto.shape=inf", d(DistType::Pareto { scale: 1.0, shape: INF })),
        ("Poisson.lambda=inf", d(DistType::Poisson { lambda: INF })),
        ("Weibull.scale=inf", d(DistType::Weibull { scale: INF, shape: 1.0 })),
        ("Weibull.shape=inf", d(DistType::Weibull { scale: 1.0, shape: INF })),
        ("Gamma.scale=inf", d(DistType::Gamma { scale: INF, shape: 1.0 })),
        ("Gamma.shape=inf", d(DistType::Gamma { scale: 1.0, shape: INF })),
        ("Beta.alpha=inf", d(DistType::Beta { alpha: INF, beta: 1.0 })),
        ("Beta.alpha=beta=inf", d(DistType::Beta { alpha: INF, beta: INF })),
        ("Dist.start=inf", Dist::new(one, INF, 0.0)),
        ("Dist.start=-inf", Dist::new(one, -INF, 0.0)),
        ("Dist.max=-inf", Dist::new(one, 0.0, -INF)),
    ]);
    assert!(acc.is_empty(), "infinity accepted as a distribution parameter: {acc:?}");
}
