// Crate: maybenot-simulator  (place in crates/maybenot-simulator/tests/finding2.rs)
//
// C19 finding 2: the trace-length stop condition is used as an allocation
// size. sim_advanced() starts with Vec::with_capacity(max_trace_length), so a
// large (but valid) bound makes the simulation panic ("capacity overflow") or
// abort ("memory allocation of ... bytes failed") before the first event is
// simulated, although the trace has two packets and the run is also bounded
// by max_sim_iterations = 100.
use std::time::Duration;

use maybenot_simulator::{network::Network, parse_trace, sim_advanced, SimulatorArgs};

fn run(max_trace_length: usize) -> usize {
    let network = Network::new(Duration::from_millis(10), None);
    let mut sq = parse_trace("0,s\n1000000,r\n", network);
    let mut args = SimulatorArgs::new(network, max_trace_length, false);
    args.insecure_rng_seed = Some(7);
    args.max_sim_iterations = 100;
    sim_advanced(&[], &[], &mut sq, &args).len()
}

#[test]
fn control_moderate_bound() {
    assert_eq!(run(1000), 7);
}

#[test]
fn max_trace_length_usize_max_panics() {
    // panics with "capacity overflow" at lib.rs:436
    assert_eq!(run(usize::MAX), 7);
}

#[test]
fn max_trace_length_2_pow_48_aborts() {
    // aborts the process: "memory allocation of 22517998136852480 bytes failed"
    assert_eq!(run(1 << 48), 7);
}
