// Crate: maybenot-simulator  (place in crates/maybenot-simulator/tests/finding3.rs)
//
// C19 finding 3 (reading-dependent, low confidence): a non-empty trace whose
// lines are all padding packets ("sp"/"rp", directions that parse_trace()
// accepts and silently drops) yields an empty SimQueue, and sim_advanced()
// then panics on `sq.get_first_time().unwrap()` (lib.rs:439) instead of
// returning an empty trace.
use std::time::Duration;

use maybenot_simulator::{network::Network, parse_trace, sim_advanced, SimulatorArgs};

#[test]
fn padding_only_trace_panics() {
    let network = Network::new(Duration::from_millis(10), None);
    let mut sq = parse_trace("0,sp\n1000000,rp\n2000000,sp\n", network);
    let mut args = SimulatorArgs::new(network, 100, false);
    args.insecure_rng_seed = Some(7);
    args.max_sim_iterations = 100;
    let trace = sim_advanced(&[], &[], &mut sq, &args);
    assert!(trace.is_empty());
}
