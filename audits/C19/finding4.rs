// Crate: maybenot-simulator  (place in crates/maybenot-simulator/tests/finding4.rs)
//
// C19 finding 4 (reading-dependent, low confidence): with a binding
// max_trace_length the filtered traces are not sub-sequences of the unfiltered
// trace obtained with the very same arguments, because the bound counts
// *recorded* events: a filtered run simulates further than the unfiltered one.
use std::time::Duration;

use maybenot::TriggerEvent;
use maybenot_simulator::{network::Network, parse_trace, sim_advanced, SimEvent, SimulatorArgs};

fn is_subsequence(sub: &[SimEvent], full: &[SimEvent]) -> bool {
    let mut it = full.iter();
    sub.iter().all(|e| it.any(|f| f == e))
}

#[test]
fn filtered_trace_is_not_a_subsequence_under_the_same_length_bound() {
    let network = Network::new(Duration::from_millis(10), None);
    let sq = parse_trace("0,s\n1000000,s\n2000000,s\n3000000,s\n", network);
    let mut args = SimulatorArgs::new(network, 4, false);
    args.insecure_rng_seed = Some(7);

    let full = sim_advanced(&[], &[], &mut sq.clone(), &args);

    let mut a = args.clone();
    a.only_network_activity = true;
    let net = sim_advanced(&[], &[], &mut sq.clone(), &a);
    assert!(net
        .iter()
        .all(|e| matches!(e.event, TriggerEvent::TunnelSent | TriggerEvent::TunnelRecv)));

    let mut a = args.clone();
    a.only_client_events = true;
    let cli = sim_advanced(&[], &[], &mut sq.clone(), &a);

    assert!(is_subsequence(&net, &full), "only_network_activity: {} events, not all in the unfiltered trace of {} events", net.len(), full.len());
    assert!(is_subsequence(&cli, &full), "only_client_events");
}
