// C19 finding 1 -- belongs in crates/maybenot-simulator/tests/
//
// A trace that is non-empty and well-formed for parse_trace(), but consists
// only of padding records ("sp" / "rp", which parse_trace() accepts and
// silently skips), yields an empty SimQueue; sim()/sim_advanced() then panic
// at `sq.get_first_time().unwrap()` (lib.rs:441) instead of returning.
//
// Run: CARGO_TARGET_DIR=/tmp/wtb-C19/target cargo test --offline \
//        -p maybenot-simulator --test c19_finding1
use std::panic::{catch_unwind, AssertUnwindSafe};
use std::time::Duration;

use maybenot_simulator::{network::Network, parse_trace, sim, sim_advanced, SimulatorArgs};

#[test]
fn padding_only_trace_must_not_panic() {
    // the client's view of a connection on which only padding was exchanged,
    // in the "time,direction" format documented for parse_trace()
    let raw_trace = "0,sp\n1000000,rp\n2000000,sp\n";
    assert!(!raw_trace.is_empty());

    let network = Network::new(Duration::from_millis(10), None);

    // parse_trace() accepts the trace (no panic, no error) ...
    let sq = parse_trace(raw_trace, network);
    // ... but every record was skipped
    assert_eq!(sq.len(), 0);

    // sim(): bounded by max_trace_length, no machines
    let r = catch_unwind(AssertUnwindSafe(|| {
        sim(&[], &[], &mut sq.clone(), network.delay, 10, false)
    }));
    assert!(
        r.is_ok(),
        "sim() panicked on a non-empty, well-formed (padding-only) trace"
    );
    assert!(r.unwrap().is_empty());

    // sim_advanced(): explicit seed, bounded iterations
    let mut args = SimulatorArgs::new(network, 10, false);
    args.max_sim_iterations = 10;
    args.insecure_rng_seed = Some(1);
    let r = catch_unwind(AssertUnwindSafe(|| {
        sim_advanced(&[], &[], &mut sq.clone(), &args)
    }));
    assert!(
        r.is_ok(),
        "sim_advanced() panicked on a non-empty, well-formed (padding-only) trace"
    );
}
