// Crate: maybenot-simulator  (place in crates/maybenot-simulator/tests/finding1.rs)
//
// C19 finding 1: sim_advanced() does not return (the process aborts with a
// stack overflow) for a plain trace without any machines, because pick_next()
// pops pending aggregate delays by recursing once per popped entry.
//
// Input (all within the quantifier of C19): no machines on either side, a
// trace of N client packets 2 ms apart followed by one last packet much later,
// network delay 1000 s, packets-per-second limit Some(1), explicit seed, an
// iteration bound. The simulation is run on a thread with an 8 MiB stack (the
// usual size of the main thread; Rust's spawned/test threads only have 2 MiB).
//
// `control_small_trace` and `control_same_input_with_huge_stack` pass: the
// recursion is finite (about 2*N frames), it is just not bounded by anything
// but the length of the trace. `deep_recursion_aborts` kills the test binary
// with "thread ... has overflowed its stack / fatal runtime error: stack
// overflow" (SIGABRT) in both the dev and the release profile.
use std::time::Duration;

use maybenot_simulator::{network::Network, parse_trace, sim_advanced, SimulatorArgs};

fn run(n: usize) -> usize {
    let mut raw = String::new();
    for i in 0..n {
        raw.push_str(&format!("{},s\n", (i as u64) * 2_000_000));
    }
    // one last packet, long after all pending aggregate delays are due
    raw.push_str(&format!("{},s\n", 100_000u64 * 1_000_000_000));

    let network = Network::new(Duration::from_secs(1000), Some(1));
    let mut sq = parse_trace(&raw, network);
    let mut args = SimulatorArgs::new(network, 0, false);
    args.insecure_rng_seed = Some(1);
    args.max_sim_iterations = 10 * n + 100;
    sim_advanced(&[], &[], &mut sq, &args).len()
}

fn run_with_stack(n: usize, stack: usize) -> usize {
    std::thread::Builder::new()
        .stack_size(stack)
        .spawn(move || run(n))
        .unwrap()
        .join()
        .unwrap()
}

#[test]
fn control_small_trace() {
    // 4 events per packet (NormalSent, TunnelSent, TunnelRecv, NormalRecv); the
    // default stop condition ends the run before the very last NormalRecv
    assert_eq!(run_with_stack(100, 8 << 20), 4 * 101 - 1);
}

#[test]
fn control_same_input_with_huge_stack() {
    assert_eq!(run_with_stack(30_000, 3 << 30), 4 * 30_001 - 1);
}

#[test]
fn deep_recursion_aborts() {
    // 30 000 packets (a modest download); aborts the process instead of returning
    assert_eq!(run_with_stack(30_000, 8 << 20), 4 * 30_001 - 1);
}
