// Belongs to: crates/maybenot-simulator/tests/ (copy as tests/c16_finding1.rs)
// FAILS on the unmodified tree (leak at 138 ms, no BlockingEnd at 160 ms).
//
// C16 finding 1: a replacing BlockOutgoing action whose BlockingBegin is
// reported at t0 does not block at all, because the simulator applied it
// BEFORE an action that was due earlier (out-of-order application), so the
// earlier-due replacing action overwrote its expiry. Normal packets then leave
// the client inside [t0, t0 + duration), and no BlockingEnd is reported at
// t0 + duration. All block actions are bypassable=true, all durations > 0, no
// integration delays. No zero duration, no mixed bypass flags, no bypass leak;
// the early application of a pending block (mechanism of the known issue
// "pending bypassable block applied early") is one ingredient, the other is
// the raw-time comparison in queue.rs peek_non_blocking() (see finding1.md).
//
// Run: cargo test --offline -p maybenot-simulator --test c16_finding1 -- --nocapture

use std::time::{Duration, Instant};

use enum_map::enum_map;
use maybenot::{
    action::Action,
    dist::{Dist, DistType},
    event::Event,
    state::{State, Trans},
    Machine, TriggerEvent,
};
use maybenot_simulator::{network::Network, queue::SimQueue, sim_advanced, SimulatorArgs};

fn fixed(us: f64) -> Dist {
    Dist {
        dist: DistType::Uniform { low: us, high: us },
        start: 0.0,
        max: 0.0,
    }
}

const MS: f64 = 1000.0;

fn block(timeout_ms: f64, duration_ms: f64, replace: bool) -> Action {
    Action::BlockOutgoing {
        bypass: true,
        replace,
        timeout: fixed(timeout_ms * MS),
        duration: fixed(duration_ms * MS),
        limit: None,
    }
}

/// machine 0: first NormalSent -> block [5ms, 25ms); at its BlockingEnd ->
/// block [80ms, 130ms)
fn m_setup() -> Machine {
    let s0 = State::new(enum_map! {
        Event::NormalSent => vec![Trans(1, 1.0)],
        _ => vec![],
    });
    let mut s1 = State::new(enum_map! {
        Event::BlockingEnd => vec![Trans(2, 1.0)],
        _ => vec![],
    });
    s1.action = Some(block(5.0, 20.0, false));
    let mut s2 = State::new(enum_map! { _ => vec![] });
    s2.action = Some(block(55.0, 50.0, false));
    Machine::new(0, 0.0, 0, 0.0, vec![s0, s1, s2]).unwrap()
}

/// runs `action` once, on the second BlockingBegin it sees (at 80ms)
fn m_on_second_bb(action: Action) -> Machine {
    let s0 = State::new(enum_map! {
        Event::BlockingBegin => vec![Trans(1, 1.0)],
        _ => vec![],
    });
    let s1 = State::new(enum_map! {
        Event::BlockingBegin => vec![Trans(2, 1.0)],
        _ => vec![],
    });
    let mut s2 = State::new(enum_map! { _ => vec![] });
    s2.action = Some(action);
    Machine::new(0, 0.0, 0, 0.0, vec![s0, s1, s2]).unwrap()
}

/// machine 3: armed by the second BlockingBegin (80ms); the next TunnelSent it
/// sees -> replacing block with timeout 1ms and duration 2ms
fn m_short_replace() -> Machine {
    let s0 = State::new(enum_map! {
        Event::BlockingBegin => vec![Trans(1, 1.0)],
        _ => vec![],
    });
    let s1 = State::new(enum_map! {
        Event::BlockingBegin => vec![Trans(2, 1.0)],
        _ => vec![],
    });
    let s2 = State::new(enum_map! {
        Event::TunnelSent => vec![Trans(3, 1.0)],
        _ => vec![],
    });
    let mut s3 = State::new(enum_map! { _ => vec![] });
    s3.action = Some(block(1.0, 2.0, true));
    Machine::new(0, 0.0, 0, 0.0, vec![s0, s1, s2, s3]).unwrap()
}

#[test]
fn replacing_block_reported_but_never_in_effect() {
    let machines = vec![
        // 0: blocks [5,25) and [80,130)
        m_setup(),
        // 1: bypass padding at 80 + 25 = 105ms
        m_on_second_bb(Action::SendPadding {
            bypass: true,
            replace: false,
            timeout: fixed(25.0 * MS),
            limit: None,
        }),
        // 2: the block under test: due at 80 + 30 = 110ms, replace, 50ms long
        m_on_second_bb(block(30.0, 50.0, true)),
        // 3: replacing 2ms block due 1ms after the padding's TunnelSent
        m_short_replace(),
    ];

    // the client sends normal packets at 0, 10, 70 and 100 ms (raw trace)
    let base = Instant::now();
    let mut sq = SimQueue::new();
    for ms in [0u64, 10, 70, 100] {
        sq.push(
            TriggerEvent::NormalSent,
            true,
            false,
            base + Duration::from_millis(ms),
            Duration::ZERO,
        );
    }

    let mut args = SimulatorArgs::new(Network::new(Duration::from_millis(1), None), 1000, false);
    args.max_sim_iterations = 1000;
    args.continue_after_all_normal_packets_processed = true;
    args.insecure_rng_seed = Some(1);
    let trace = sim_advanced(&machines, &[], &mut sq, &args);

    let t = |i: Instant| i.duration_since(base).as_micros() as f64 / 1000.0;
    println!("client trace (ms):");
    for e in trace.iter().filter(|e| e.client) {
        println!(
            "  {:8.3} {}{}",
            t(e.time),
            e.event,
            if e.contains_padding { " (padding)" } else { "" }
        );
    }

    // the BlockingBegin of machine 2 (replace, 50ms)
    let bb = trace
        .iter()
        .find(|e| {
            e.client
                && matches!(e.event, TriggerEvent::BlockingBegin { machine } if machine.into_raw() == 2)
        })
        .expect("BlockingBegin of machine 2 is reported");
    let begin = bb.time;
    let expiry = begin + Duration::from_millis(50);
    println!(
        "machine 2: BlockingBegin at {} ms, replace => blocking must last until {} ms",
        t(begin),
        t(expiry)
    );
    assert_eq!(begin, base + Duration::from_millis(110));

    // no other block action is reported after it, so nothing can legitimately
    // change the expiry again
    let later_bb = trace
        .iter()
        .filter(|e| {
            e.client && e.time > begin && matches!(e.event, TriggerEvent::BlockingBegin { .. })
        })
        .count();
    assert_eq!(later_bb, 0, "no later block action");

    let ends: Vec<_> = trace
        .iter()
        .filter(|e| e.client && e.time >= begin && e.event == TriggerEvent::BlockingEnd)
        .map(|e| t(e.time))
        .collect();
    let leaked: Vec<_> = trace
        .iter()
        .filter(|e| {
            e.client && e.event == TriggerEvent::TunnelSent && e.time > begin && e.time < expiry
        })
        .map(|e| (t(e.time), e.contains_padding))
        .collect();
    println!("BlockingEnd events at/after the begin: {:?}", ends);
    println!(
        "TunnelSent (time ms, padding) strictly inside the blocking: {:?}",
        leaked
    );

    assert!(
        leaked.is_empty(),
        "tunnel packets left the client while machine 2's blocking must be active: {:?}",
        leaked
    );
    assert_eq!(
        ends,
        vec![t(expiry)],
        "exactly one BlockingEnd at the expiry"
    );
}
