// Belongs to: crates/maybenot-ffi/tests/
//
// C20 finding 1: maybenot_start splits the machine list with str::lines(),
// which also swallows a carriage return in front of each line feed. A machine
// string ending in '\r' is rejected by the Rust API (Machine::from_str) and by
// maybenot_start itself when it is the last, unterminated entry, but the very
// same string is accepted by maybenot_start as soon as a line feed follows it.

use std::ffi::CString;
use std::mem::MaybeUninit;
use std::str::FromStr;
use std::time::Instant;

use maybenot::event::Event;
use maybenot::state::{State, Trans};
use maybenot::{Framework, Machine};
use maybenot_ffi::*;

fn machine_string() -> String {
    let mut t = State::new(Default::default()).get_transitions();
    t[Event::NormalSent] = vec![Trans(0, 1.0)];
    Machine::new(0, 0.0, 0, 0.0, vec![State::new(t)])
        .unwrap()
        .serialize()
}

/// result code and number of machines of maybenot_start
fn c_start(s: &str) -> (u32, usize) {
    let cs = CString::new(s).unwrap();
    let mut fw: MaybeUninit<*mut MaybenotFramework> = MaybeUninit::uninit();
    let res = unsafe { maybenot_start(cs.as_ptr(), 1.0, 1.0, &mut fw) } as u32;
    let mut n = 0;
    if res == 0 {
        unsafe {
            n = maybenot_num_machines(fw.assume_init());
            maybenot_stop(fw.assume_init());
        }
    }
    (res, n)
}

/// does the Rust API accept every one of the given machine strings?
fn rust_accepts(strings: &[&str]) -> bool {
    let ms: Result<Vec<Machine>, _> = strings.iter().map(|s| Machine::from_str(s)).collect();
    match ms {
        Ok(ms) => Framework::new(ms, 1.0, 1.0, Instant::now(), rand::thread_rng()).is_ok(),
        Err(_) => false,
    }
}

#[test]
fn machine_string_with_trailing_cr_is_accepted_when_lf_follows() {
    let m = machine_string();
    let m_cr = format!("{m}\r");

    // the Rust API rejects the string "<machine>\r" ...
    assert!(rust_accepts(&[&m]));
    assert!(!rust_accepts(&[&m_cr]));
    assert!(!rust_accepts(&[&m_cr, &m]));
    // ... and so does the C API when it is the only (unterminated) entry
    assert_eq!(c_start(&m_cr), (2, 0));

    // LF-separated list of the two strings "<machine>\r" and "<machine>":
    // the Rust API rejects the first string, so start must report
    // InvalidMachineString (2). Observed: Ok (0) with two machines.
    let list = format!("{m_cr}\n{m}");
    assert_eq!(
        c_start(&list).0,
        2,
        "maybenot_start accepted a list whose first LF-separated string the Rust API rejects: {:?}",
        c_start(&list)
    );
}

#[test]
fn same_string_rejected_or_accepted_depending_on_following_lf() {
    let m = machine_string();
    // "<machine>\r" -> InvalidMachineString, "<machine>\r\n" -> Ok: the
    // string in front of the separator is the same in both
    let without = c_start(&format!("{m}\r")).0;
    let with = c_start(&format!("{m}\r\n")).0;
    assert_eq!(without, with, "without LF: {without}, with LF: {with}");
}
