// Crate: maybenot  (place in crates/maybenot/tests/c06_finding1.rs)
//
// C06 finding 1: State::sample_state accumulates the declared probabilities in
// f32. Once the running sum is >= 0.5 its spacing is 2^-24, so every later
// addend <= 2^-25 is absorbed completely (and addends such as 1.5*2^-24 are
// rounded up by 2^-25 every time, ties-to-even). The error is below the draw
// resolution (2^-23) per target, but it does not cancel: it grows linearly with
// the number of targets, so the share of outcomes with "no transition" differs
// from 1-(p1+..+pk) by many draw-resolution units, and the result depends on
// the ORDER in which the same (target, probability) pairs are listed.
//
// All vectors below pass State::validate / Machine::new, have real sums < 1,
// and every outcome of the 23-bit draw is enumerated (no sampling).
//
// On the unmodified tree: the three `*_order_*`/framework tests FAIL, the two
// `control_*` tests PASS.

use std::cell::Cell;
use std::collections::HashMap;
use std::rc::Rc;
use std::time::Instant;

use enum_map::enum_map;
use maybenot::action::Action;
use maybenot::dist::{Dist, DistType};
use maybenot::event::{Event, TriggerEvent};
use maybenot::state::{State, Trans};
use maybenot::{Framework, Machine, TriggerAction};
use rand_core::{impls, Error, RngCore};

const DRAWS: u64 = 1 << 23;

/// An RNG whose 32-bit word is chosen by the test. gen_range(0.0..1.0) for f32
/// uses the top 23 bits of one next_u32() word: r = (word >> 9) / 2^23.
#[derive(Clone)]
struct WordRng(Rc<Cell<u32>>);
impl RngCore for WordRng {
    fn next_u32(&mut self) -> u32 {
        self.0.get()
    }
    fn next_u64(&mut self) -> u64 {
        panic!("transition sampling is expected to use one 32-bit word")
    }
    fn fill_bytes(&mut self, dest: &mut [u8]) {
        impls::fill_bytes_via_next(self, dest)
    }
    fn try_fill_bytes(&mut self, dest: &mut [u8]) -> Result<(), Error> {
        self.fill_bytes(dest);
        Ok(())
    }
}

/// Exhaustive count over all 2^23 draw outcomes: (per-target counts, none).
fn exhaustive(v: &[Trans], num_states: usize) -> (Vec<u64>, u64) {
    let s = State::new(enum_map! {
        Event::NormalSent => v.to_vec(),
        _ => vec![],
    });
    s.validate(num_states).expect("vector must be valid");
    let idx: HashMap<usize, usize> = v.iter().enumerate().map(|(i, t)| (t.0, i)).collect();
    let cell = Rc::new(Cell::new(0u32));
    let mut rng = WordRng(cell.clone());
    let mut counts = vec![0u64; v.len()];
    let mut none = 0u64;
    for k in 0..DRAWS as u32 {
        cell.set(k << 9);
        match s.sample_state(Event::NormalSent, &mut rng) {
            Some(t) => counts[idx[&t]] += 1,
            None => none += 1,
        }
    }
    (counts, none)
}

/// declared p1+..+pk in units of 2^-23, computed exactly (f64 holds these
/// sums exactly: every term is a multiple of 2^-26 below 1).
fn declared_units(v: &[Trans]) -> f64 {
    v.iter().map(|t| t.1 as f64 * DRAWS as f64).sum()
}

fn check(v: &[Trans], num_states: usize) {
    let (counts, none) = exhaustive(v, num_states);
    // per target: within one resolution unit of p_i (this part holds)
    for (i, t) in v.iter().enumerate() {
        let want = t.1 as f64 * DRAWS as f64;
        assert!(
            (counts[i] as f64 - want).abs() <= 1.0,
            "target {} got {} outcomes, declared {}",
            t.0,
            counts[i],
            want
        );
    }
    // remaining share: no transition on 1-(p1+..+pk), up to the resolution
    let want_none = DRAWS as f64 - declared_units(v);
    assert!(
        (none as f64 - want_none).abs() <= 1.0,
        "no transition on {} of 2^23 outcomes, statement requires {} (+-1); \
         transitions taken on {} outcomes, declared sum is {} outcomes",
        none,
        want_none,
        DRAWS - none,
        declared_units(v)
    );
}

fn big_then_small(small: f32, n: usize) -> Vec<Trans> {
    let mut v = vec![Trans(0, 0.5)];
    for i in 1..=n {
        v.push(Trans(i, small));
    }
    v
}

/// 0.5 followed by 64 targets of 2^-25 each (together 2^-19 = 16 outcomes).
/// Observed: none = 4194304, required 4194288; the 64 targets are unreachable.
#[test]
fn order_big_first_absorbs_small_probabilities() {
    check(&big_then_small(2f32.powi(-25), 64), 65);
}

/// Same pairs, small ones first: exact.
#[test]
fn control_same_pairs_small_first() {
    let mut v = big_then_small(2f32.powi(-25), 64);
    v.reverse();
    check(&v, 65);
}

/// 0.5 followed by 64 targets of 1.5*2^-24 each (together 48 outcomes).
/// Observed: the 64 targets get 64 outcomes, none = 4194240, required 4194256:
/// a transition is taken on 16 outcomes that belong to "no transition".
#[test]
fn order_big_first_rounds_every_addend_up() {
    check(&big_then_small(1.5 * 2f32.powi(-24), 64), 65);
}

#[test]
fn control_rounding_small_first() {
    let mut v = big_then_small(1.5 * 2f32.powi(-24), 64);
    v.reverse();
    check(&v, 65);
}

/// The same through Machine::new + Framework::trigger_events with 256 small
/// targets (together 2^-17 = 64 outcomes). Targets 1..=256 pad at once, so a
/// move away from state 0 is visible as a SendPadding action. The statement
/// requires a move on 64 of the 2^23 outcomes; none of the outcomes moves.
#[test]
fn framework_never_takes_declared_transitions() {
    let n = 256usize;
    let v = big_then_small(2f32.powi(-25), n);
    let s0 = State::new(enum_map! {
        Event::NormalSent => v.clone(),
        _ => vec![],
    });
    let mut states = vec![s0];
    for _ in 0..n {
        let mut s = State::new(enum_map! { _ => vec![] });
        s.action = Some(Action::SendPadding {
            bypass: false,
            replace: false,
            timeout: Dist {
                dist: DistType::Uniform {
                    low: 0.0,
                    high: 0.0,
                },
                start: 0.0,
                max: 0.0,
            },
            limit: None,
        });
        states.push(s);
    }
    let m = Machine::new(u64::MAX, 1.0, 0, 0.0, states).expect("machine is valid");
    let machines = vec![m];
    let cell = Rc::new(Cell::new(0u32));
    let now = Instant::now();
    let mut f = Framework::new(&machines, 1.0, 0.0, now, WordRng(cell.clone())).unwrap();

    // enumerate every outcome of the draw; stop at the first move (after a
    // move the machine is no longer in state 0)
    let mut moved = 0u64;
    for k in 0..DRAWS as u32 {
        cell.set(k << 9);
        let acts: Vec<TriggerAction> = f
            .trigger_events(&[TriggerEvent::NormalSent], now)
            .cloned()
            .collect();
        if !acts.is_empty() {
            moved += 1;
            break;
        }
    }
    assert_eq!(
        moved, 1,
        "declared probability of leaving state 0 is 2^-17 (64 of 2^23 outcomes), \
         but no outcome of the draw ever takes one of the 256 transitions"
    );
}
