// Crate: maybenot-simulator  (place in crates/maybenot-simulator/tests/)
//
// C14 finding 1: parse_trace() estimates the trace's own packets-per-second
// limit (SimQueue::max_pps) by feeding the time stamps to a sliding window IN
// FILE ORDER. The window only works for non-decreasing times. For a trace whose
// lines are not sorted by time (the parser and the queue otherwise accept such
// traces and reproduce them exactly), the limit can come out far below the
// trace's real rate; sim() then treats the trace's own packets as exceeding a
// bottleneck, delays their arrival at the server and shifts all later packets
// of the trace by an "aggregate delay" - with no machines at all.
//
// `unsorted_lines_shift_packets` FAILS on the unmodified tree;
// `same_packets_sorted_lines_are_exact` passes (control).

use maybenot::TriggerEvent;
use maybenot_simulator::{network::Network, parse_trace, sim, sim_advanced, SimulatorArgs};
use std::time::Duration;

const MS: u64 = 1_000_000;
const S: u64 = 1_000_000_000;
const NEAR: u64 = 25;

/// 25 packets sent at 0,1,..,24 ms and 25 packets sent at 2,3,..,26 s.
/// In the file each near packet is followed by one far packet.
fn packets_in_file_order() -> Vec<u64> {
    let mut v = vec![];
    for i in 0..NEAR {
        v.push(i * MS);
        v.push((i + 2) * S);
    }
    v
}

fn raw(times: &[u64]) -> String {
    times.iter().map(|t| format!("{},s\n", t)).collect()
}

/// returns (client TunnelSent times, server TunnelRecv times) relative to the
/// first client TunnelSent, in ns
fn run(times: &[u64], delay: Duration, advanced: bool) -> (Vec<u64>, Vec<u64>) {
    let network = Network::new(delay, None);
    let mut sq = parse_trace(&raw(times), network);
    let out = if advanced {
        let args = SimulatorArgs::new(network, 0, true);
        sim_advanced(&[], &[], &mut sq, &args)
    } else {
        sim(&[], &[], &mut sq, delay, 0, true)
    };
    let base = out
        .iter()
        .find(|e| e.client && e.event == TriggerEvent::TunnelSent)
        .unwrap()
        .time;
    let rel = |client: bool, ev: TriggerEvent| -> Vec<u64> {
        out.iter()
            .filter(|e| e.client == client && e.event == ev)
            .map(|e| e.time.duration_since(base).as_nanos() as u64)
            .collect()
    };
    (rel(true, TriggerEvent::TunnelSent), rel(false, TriggerEvent::TunnelRecv))
}

#[test]
fn same_packets_sorted_lines_are_exact() {
    let mut times = packets_in_file_order();
    times.sort();
    let delay = Duration::from_millis(10);
    for advanced in [false, true] {
        let (sent, recv) = run(&times, delay, advanced);
        assert_eq!(sent, times);
        let shifted: Vec<u64> = times.iter().map(|t| t + 10 * MS).collect();
        assert_eq!(recv, shifted);
    }
}

#[test]
fn unsorted_lines_shift_packets() {
    let file = packets_in_file_order();
    let mut times = file.clone();
    times.sort();
    for delay in [Duration::ZERO, Duration::from_millis(10)] {
        let d = delay.as_nanos() as u64;
        for advanced in [false, true] {
            let (sent, recv) = run(&file, delay, advanced);
            // client: a tunnel-sent packet at exactly every time of the trace
            assert_eq!(
                sent, times,
                "client TunnelSent times differ from the trace (delay {:?}, sim_advanced {})",
                delay, advanced
            );
            // server: mirror image shifted by the network delay
            let shifted: Vec<u64> = times.iter().map(|t| t + d).collect();
            assert_eq!(
                recv, shifted,
                "server TunnelRecv times are not trace + delay (delay {:?}, sim_advanced {})",
                delay, advanced
            );
        }
    }
}
