// Belongs in: crates/maybenot-simulator/tests/  (crate maybenot-simulator)
//
// C14 finding 1: with no machines and no integration delays, packets of
// different directions that share a timestamp come out of the simulator in a
// fixed order (TunnelSent before TunnelRecv) regardless of the order the
// input trace lists them in. The trace "5,r / 5,s" (client received, then
// sent, both at t=5ns) is returned as "sent, received": the client-side
// sequence of packets is reordered although every timestamp is preserved.
//
// FAILS on the unmodified tree (second and third case).
use std::time::Duration;

use maybenot::TriggerEvent;
use maybenot_simulator::{network::Network, parse_trace, sim, sim_advanced, SimulatorArgs};

fn client_seq(raw: &str, delay: Duration, advanced: bool) -> Vec<(u128, char)> {
    let network = Network::new(delay, None);
    let mut sq = parse_trace(raw, network);
    let out = if advanced {
        let mut args = SimulatorArgs::new(network, 0, true);
        args.only_client_events = true;
        sim_advanced(&[], &[], &mut sq, &args)
    } else {
        sim(&[], &[], &mut sq, delay, 0, true)
    };
    let first_client = out.iter().find(|e| e.client).unwrap().time;
    out.iter()
        .filter(|e| e.client)
        .filter_map(|e| match e.event {
            TriggerEvent::TunnelSent => Some(((e.time - first_client).as_nanos(), 's')),
            TriggerEvent::TunnelRecv => Some(((e.time - first_client).as_nanos(), 'r')),
            _ => None,
        })
        .collect()
}

fn input_seq(raw: &str) -> Vec<(u128, char)> {
    let v: Vec<(u128, char)> = raw
        .lines()
        .map(|l| {
            let p: Vec<&str> = l.split(',').collect();
            (p[0].parse::<u128>().unwrap(), p[1].chars().next().unwrap())
        })
        .collect();
    let t0 = v[0].0;
    v.into_iter().map(|(t, d)| (t - t0, d)).collect()
}

#[test]
fn c14_equal_timestamp_mixed_directions_keep_trace_order() {
    let cases = [
        // sent-then-received at the same instant: happens to be preserved
        "5,s\n5,r",
        // received-then-sent at the same instant: comes out as sent, received
        "5,r\n5,s",
        // a burst r,s,r,s at one instant after an earlier packet
        "0,s\n5000000,r\n5000000,s\n5000000,r\n5000000,s\n9000000,r",
    ];
    let mut failures = vec![];
    for raw in cases {
        for delay in [Duration::ZERO, Duration::from_millis(10)] {
            for advanced in [false, true] {
                let got = client_seq(raw, delay, advanced);
                let want = input_seq(raw);
                if got != want {
                    failures.push(format!(
                        "trace {:?} delay {:?} advanced {}: want {:?} got {:?}",
                        raw, delay, advanced, want, got
                    ));
                }
            }
        }
    }
    assert!(failures.is_empty(), "reordered:\n{}", failures.join("\n"));
}
