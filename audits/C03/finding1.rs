// Belongs to: crates/maybenot/tests/  (crate `maybenot`), run with
//   cargo test --offline -p maybenot --test c03_finding1
//
// C03 finding 1: the blocked share is computed as
// `as_secs_f64() / as_secs_f64()` (time.rs:59). Both operands are rounded
// before the division, so a share that is EXACTLY equal to the configured
// max_blocking_frac can come out one ulp below it, and the framework then
// emits a fresh, non-replacing BlockOutgoing although the blocked share is not
// below the limit (and the allowed_blocked_microsec budget is 0).
use enum_map::enum_map;
use maybenot::action::Action;
use maybenot::dist::{Dist, DistType};
use maybenot::event::Event;
use maybenot::state::{State, Trans};
use maybenot::{Framework, Machine, MachineId, TriggerAction, TriggerEvent};
use rand::rngs::StdRng;
use rand::SeedableRng;
use std::time::{Duration, Instant};

fn cdist(v: f64) -> Dist {
    Dist { dist: DistType::Uniform { low: v, high: v }, start: 0.0, max: 0.0 }
}

/// one state, NormalSent -> itself, action: block (no replace flag)
fn blocker(allowed_blocked_microsec: u64, max_blocking_frac: f64) -> Machine {
    let mut s0 = State::new(enum_map! {
        Event::NormalSent => vec![Trans(0, 1.0)],
        _ => vec![],
    });
    s0.action = Some(Action::BlockOutgoing {
        bypass: false,
        replace: false,
        timeout: cdist(1.0),
        duration: cdist(10.0),
        limit: None,
    });
    Machine::new(0, 0.0, allowed_blocked_microsec, max_blocking_frac, vec![s0]).unwrap()
}

/// History (all single-event calls, strictly increasing clock):
///   BlockingBegin@0, BlockingEnd@blocked_us, NormalSent@elapsed_us
/// Returns the number of BlockOutgoing actions returned by the last call.
fn run(machine_frac: f64, framework_frac: f64, blocked_us: u64, elapsed_us: u64) -> usize {
    let machines = vec![blocker(0, machine_frac)];
    let t0 = Instant::now();
    let mut f =
        Framework::new(&machines, 0.0, framework_frac, t0, StdRng::seed_from_u64(1)).unwrap();
    let n = f
        .trigger_events(&[TriggerEvent::BlockingBegin { machine: MachineId::from_raw(0) }], t0)
        .count();
    assert_eq!(n, 0);
    let n = f
        .trigger_events(&[TriggerEvent::BlockingEnd], t0 + Duration::from_micros(blocked_us))
        .count();
    assert_eq!(n, 0);
    f.trigger_events(&[TriggerEvent::NormalSent], t0 + Duration::from_micros(elapsed_us))
        .filter(|a| matches!(a, TriggerAction::BlockOutgoing { replace: false, .. }))
        .count()
}

#[test]
fn control_share_equal_to_limit_is_refused() {
    // 7/8 == 0.875 exactly: the share is not below the limit -> no blocking
    assert_eq!(run(0.875, 0.0, 7, 8), 0);
    assert_eq!(run(0.0, 0.875, 7, 8), 0);
    // 14/16, 28/32 likewise
    assert_eq!(run(0.875, 0.0, 14, 16), 0);
    assert_eq!(run(0.875, 0.0, 28, 32), 0);
}

#[test]
fn machine_fraction_reached_exactly_must_refuse() {
    // blocked 21us of 24us since start: 21/24 == 0.875 exactly (0.875 is
    // exactly representable). budget = 0us, no replace flag, blocking is not
    // active. None of the three alternatives of C03 holds.
    assert_eq!(
        run(0.875, 0.0, 21, 24),
        0,
        "BlockOutgoing although blocked share 21/24 == machine max_blocking_frac 0.875"
    );
}

#[test]
fn framework_fraction_reached_exactly_must_refuse() {
    assert_eq!(
        run(0.0, 0.875, 21, 24),
        0,
        "BlockOutgoing although blocked share 21/24 == framework max_blocking_frac 0.875"
    );
}

#[test]
fn more_exact_boundaries() {
    // all of these shares are exactly equal to an exactly representable limit
    let cases: [(u64, u64, f64); 3] = [(35, 40, 0.875), (42, 48, 0.875), (21, 48, 0.4375)];
    let mut bad = vec![];
    for (b, e, frac) in cases {
        assert_eq!(b as f64 / e as f64, frac); // exact
        if run(frac, 0.0, b, e) != 0 {
            bad.push((b, e, frac));
        }
    }
    assert!(bad.is_empty(), "blocking allowed at share == limit for {:?}", bad);
}
