// Crate: maybenot  (place in crates/maybenot/tests/c03_finding2.rs)
//
// C03 finding 2 (READING-DEPENDENT, see finding2.md): a backwards step of the
// clock makes the framework forget blocked time it had already observed.
//
// The framework evaluates every difference against the raw time stamp of the
// current call (`current_time.saturating_duration_since(..)`). The last
// sentence of C03 says that time running backwards is treated as ZERO ELAPSED
// TIME and never makes the framework exceed the rules. If "zero elapsed time"
// is taken as "the clock stands still while the caller's time stamps are
// behind the latest one already seen" (now = max of all call time stamps),
// then after a backwards step
//   (1) an ongoing block is counted only up to the earlier time stamp, and
//   (2) a BlockingEnd books only `stamp - begin`, although an earlier call had
//       already told the framework that the block was still running at a much
//       later instant,
// and in both cases a non-replacing BlockOutgoing is handed out while the
// blocked share, measured on the non-decreasing clock, is far above the limit.
//
// All calls carry exactly one event.
//
// Run with:
//   CARGO_TARGET_DIR=/tmp/wtb-C03/target cargo test --offline -p maybenot --test c03_finding2

use enum_map::enum_map;
use maybenot::action::Action;
use maybenot::dist::{Dist, DistType};
use maybenot::event::Event;
use maybenot::state::{State, Trans};
use maybenot::{Framework, Machine, MachineId, TriggerAction, TriggerEvent};
use rand::rngs::StdRng;
use rand::SeedableRng;
use std::time::{Duration, Instant};

fn const_dist(v: f64) -> Dist {
    Dist::new(DistType::Uniform { low: v, high: v }, 0.0, 0.0)
}

fn blocker(machine_frac: f64) -> Machine {
    let mut s0 = State::new(enum_map! {
        Event::NormalSent => vec![Trans(0, 1.0)],
        _ => vec![],
    });
    s0.action = Some(Action::BlockOutgoing {
        bypass: false,
        replace: false,
        timeout: const_dist(1.0),
        duration: const_dist(10.0),
        limit: None,
    });
    Machine::new(0, 0.0, 0, machine_frac, vec![s0]).unwrap()
}

/// Oracle on a non-decreasing clock: a call whose stamp lies before the latest
/// stamp seen so far happens "now" (zero elapsed time since the previous call).
struct Oracle {
    now: u64, // microseconds since start, never decreases
    active_since: Option<u64>,
    blocked: u64,
}

impl Oracle {
    fn new() -> Self {
        Oracle {
            now: 0,
            active_since: None,
            blocked: 0,
        }
    }
    fn call(&mut self, stamp: u64, e: &TriggerEvent) {
        self.now = self.now.max(stamp);
        match e {
            TriggerEvent::BlockingBegin { .. } => {
                if self.active_since.is_none() {
                    self.active_since = Some(self.now);
                }
            }
            TriggerEvent::BlockingEnd => {
                if let Some(b) = self.active_since.take() {
                    self.blocked += self.now - b;
                }
            }
            _ => {}
        }
    }
    fn blocked_now(&self) -> u64 {
        self.blocked + self.active_since.map_or(0, |b| self.now - b)
    }
}

/// Runs the history (stamp in microseconds since start, event) one event per
/// call and returns, for the LAST call, whether a BlockOutgoing was returned
/// plus the oracle's (blocked, elapsed, active).
fn run(machine_frac: f64, history: &[(u64, TriggerEvent)]) -> (bool, u64, u64, bool) {
    let machines = vec![blocker(machine_frac)];
    let t0 = Instant::now() + Duration::from_secs(3600);
    let mut f = Framework::new(&machines, 0.0, 0.0, t0, StdRng::seed_from_u64(1)).unwrap();
    let mut o = Oracle::new();
    let mut last = false;
    for (stamp, e) in history {
        o.call(*stamp, e);
        last = f
            .trigger_events(std::slice::from_ref(e), t0 + Duration::from_micros(*stamp))
            .any(|a| matches!(a, TriggerAction::BlockOutgoing { replace: false, .. }));
    }
    (last, o.blocked_now(), o.now, o.active_since.is_some())
}

fn begin() -> TriggerEvent {
    TriggerEvent::BlockingBegin {
        machine: MachineId::from_raw(0),
    }
}

/// (1) ongoing block, the stamp steps back from 300 to 150.
#[test]
fn ongoing_block_is_not_forgotten_when_the_clock_steps_back() {
    let limit = 0.5;
    // control: without the backwards step the request is refused
    let (got, blocked, elapsed, _) = run(
        limit,
        &[(100, begin()), (300, TriggerEvent::NormalSent)],
    );
    assert_eq!((blocked, elapsed), (200, 300));
    assert!(!got, "control: 200/300 >= 0.5 must be refused");

    let (got, blocked, elapsed, active) = run(
        limit,
        &[
            (100, begin()),
            (300, TriggerEvent::NormalSent), // framework sees: blocked 200 of 300
            (150, TriggerEvent::NormalSent), // stamp 150 < 300: zero elapsed time
        ],
    );
    assert!(active);
    assert_eq!((blocked, elapsed), (200, 300));
    assert!(blocked as f64 / elapsed as f64 >= limit);
    assert!(
        !got,
        "BlockOutgoing (replace=false, budget 0) returned although the block has been running for \
         {blocked} of {elapsed} us (share {:.3} >= {limit}); the framework computed 50/150",
        blocked as f64 / elapsed as f64
    );
}

/// (2) BlockingEnd carries a stamp that is after the BlockingBegin but before a
/// call that had already seen the block running: only 1 us is booked for a
/// block that was observed to last at least 900 us.
#[test]
fn finished_block_is_not_shrunk_by_a_backwards_blocking_end() {
    let limit = 0.5;
    let (got, blocked, elapsed, active) = run(
        limit,
        &[
            (100, begin()),
            (1000, TriggerEvent::TunnelSent), // block observed running at 1000
            (101, TriggerEvent::BlockingEnd), // stamp 101 < 1000: zero elapsed time
            (1001, TriggerEvent::NormalSent),
        ],
    );
    assert!(!active);
    assert_eq!((blocked, elapsed), (900, 1001));
    assert!(
        !got,
        "BlockOutgoing (replace=false, budget 0) returned although {blocked} of {elapsed} us were \
         blocked (share {:.3} >= {limit}); the framework booked 1 us",
        blocked as f64 / elapsed as f64
    );
}
