// Crate: maybenot  (place in crates/maybenot/tests/c03_finding1.rs)
//
// C03 finding 1: once the clock has run for more than 2^53 ns (about 104 days)
// the blocked share is computed from nanosecond counts that no longer fit an
// f64 mantissa. std::time::Duration::div_duration_f64 converts each operand as
// `secs as f64 * 1e9 + subsec_nanos as f64`, which rounds; when the elapsed
// time is rounded UP (or the blocked time DOWN) the quotient lands one ulp
// below a limit that the exact share equals or exceeds, and a BlockOutgoing
// action is returned although
//   - replace is false,
//   - the blocked time is not below allowed_blocked_microsec (0), and
//   - the blocked share is NOT below max_blocking_frac.
//
// All calls carry exactly one event, time only moves forward, one block with
// one BlockingBegin and one BlockingEnd. The oracle in the test is exact
// integer arithmetic on the reported time stamps.
//
// Run with:
//   CARGO_TARGET_DIR=/tmp/wtb-C03/target cargo test --offline -p maybenot --test c03_finding1

use enum_map::enum_map;
use maybenot::action::Action;
use maybenot::dist::{Dist, DistType};
use maybenot::event::Event;
use maybenot::state::{State, Trans};
use maybenot::{Framework, Machine, MachineId, TriggerAction, TriggerEvent};
use rand::rngs::StdRng;
use rand::SeedableRng;
use std::time::{Duration, Instant};

fn ns(n: u128) -> Duration {
    Duration::new((n / 1_000_000_000) as u64, (n % 1_000_000_000) as u32)
}

fn const_dist(v: f64) -> Dist {
    Dist::new(DistType::Uniform { low: v, high: v }, 0.0, 0.0)
}

/// One state; every NormalSent re-enters it and asks for a (non-replacing)
/// block. No budget: allowed_blocked_microsec = 0.
fn blocker(machine_frac: f64) -> Machine {
    let mut s0 = State::new(enum_map! {
        Event::NormalSent => vec![Trans(0, 1.0)],
        _ => vec![],
    });
    s0.action = Some(Action::BlockOutgoing {
        bypass: false,
        replace: false,
        timeout: const_dist(1.0),
        duration: const_dist(10.0),
        limit: None,
    });
    Machine::new(0, 0.0, 0, machine_frac, vec![s0]).unwrap()
}

/// History: BlockingBegin at start, BlockingEnd at start+blocked_ns,
/// NormalSent at start+elapsed_ns. Returns true if the last call handed out a
/// BlockOutgoing action.
fn blocks_after(machine_frac: f64, framework_frac: f64, blocked_ns: u128, elapsed_ns: u128) -> bool {
    let machines = vec![blocker(machine_frac)];
    let t0 = Instant::now();
    let mut f = Framework::new(
        &machines,
        0.0,
        framework_frac,
        t0,
        StdRng::seed_from_u64(7),
    )
    .unwrap();

    let n = f
        .trigger_events(
            &[TriggerEvent::BlockingBegin {
                machine: MachineId::from_raw(0),
            }],
            t0,
        )
        .count();
    assert_eq!(n, 0);
    let n = f
        .trigger_events(&[TriggerEvent::BlockingEnd], t0 + ns(blocked_ns))
        .count();
    assert_eq!(n, 0);

    let acts: Vec<TriggerAction> = f
        .trigger_events(&[TriggerEvent::NormalSent], t0 + ns(elapsed_ns))
        .cloned()
        .collect();
    acts.iter().any(|a| {
        matches!(
            a,
            TriggerAction::BlockOutgoing {
                replace: false,
                ..
            }
        )
    })
}

const DAY: u128 = 86_400 * 1_000_000_000;

// (limit, numerator, denominator of the limit, blocked ns, elapsed ns)
const CASES: &[(f64, u128, u128, u128, u128)] = &[
    // share EXACTLY 3/4: 150 days + 9 ns blocked of 200 days + 12 ns
    (0.75, 3, 4, 150 * DAY + 9, 200 * DAY + 12),
    // share strictly above 3/4: same block, one nanosecond earlier
    (0.75, 3, 4, 150 * DAY + 9, 200 * DAY + 11),
    // found by random search, about 247 of 329 days
    (0.75, 3, 4, 21_335_229_148_274_058, 28_446_972_197_698_743),
];

fn check(machine_level: bool) {
    let mut bad = vec![];
    for &(limit, num, den, blocked, elapsed) in CASES {
        // exact oracle: blocked/elapsed >= num/den, i.e. the share is NOT below the limit
        assert!(blocked * den >= num * elapsed, "case is not over the limit");
        // and the limit constant is exactly num/den as an f64
        assert_eq!(limit, num as f64 / den as f64);

        let got = if machine_level {
            blocks_after(limit, 0.0, blocked, elapsed)
        } else {
            blocks_after(0.0, limit, blocked, elapsed)
        };
        if got {
            bad.push(format!(
                "limit {limit}: blocked {blocked} ns of {elapsed} ns (exact share >= limit; f64 quotient {:?}) -> BlockOutgoing returned",
                ns(blocked).div_duration_f64(ns(elapsed))
            ));
        }
    }
    assert!(
        bad.is_empty(),
        "BlockOutgoing returned although no C03 alternative holds:\n  {}",
        bad.join("\n  ")
    );
}

#[test]
fn machine_max_blocking_frac_is_enforced_after_104_days() {
    check(true);
}

#[test]
fn framework_max_blocking_frac_is_enforced_after_104_days() {
    check(false);
}

/// Control: the same shape of history is refused when the numbers are small
/// (this is the case repaired by 11bd2fa) and when the share is clearly above.
#[test]
fn control_small_and_clear_cases_are_refused() {
    assert!(!blocks_after(0.75, 0.0, 15, 20));
    assert!(!blocks_after(0.0, 0.75, 15, 20));
    assert!(!blocks_after(0.75, 0.0, 150 * DAY + 1_000, 200 * DAY + 12));
    // and allowed when clearly below
    assert!(blocks_after(0.75, 0.0, 150 * DAY - 1_000, 200 * DAY + 12));
}
