// Belongs to: crates/maybenot/tests/  (crate `maybenot`), run with
//   cargo test --offline -p maybenot --test c03_finding2
//
// C03 finding 2 (depends on how "time running backwards is treated as zero
// elapsed time" is read, see finding2.md): a BlockingEnd reported with a
// timestamp earlier than the matching BlockingBegin erases blocked time the
// framework has already observed and acted upon in an earlier call.
use enum_map::enum_map;
use maybenot::action::Action;
use maybenot::dist::{Dist, DistType};
use maybenot::event::Event;
use maybenot::state::{State, Trans};
use maybenot::{Framework, Machine, MachineId, TriggerAction, TriggerEvent};
use rand::rngs::StdRng;
use rand::SeedableRng;
use std::time::{Duration, Instant};

fn cdist(v: f64) -> Dist {
    Dist { dist: DistType::Uniform { low: v, high: v }, start: 0.0, max: 0.0 }
}

fn blocker(allowed_blocked_microsec: u64, max_blocking_frac: f64) -> Machine {
    let mut s0 = State::new(enum_map! {
        Event::NormalSent => vec![Trans(0, 1.0)],
        _ => vec![],
    });
    s0.action = Some(Action::BlockOutgoing {
        bypass: false,
        replace: false,
        timeout: cdist(1.0),
        duration: cdist(10.0),
        limit: None,
    });
    Machine::new(0, 0.0, allowed_blocked_microsec, max_blocking_frac, vec![s0]).unwrap()
}

fn blocks(f: &mut Framework<&Vec<Machine>, StdRng>, e: TriggerEvent, t: Instant) -> usize {
    f.trigger_events(&[e], t)
        .filter(|a| matches!(a, TriggerAction::BlockOutgoing { .. }))
        .count()
}

#[test]
fn backwards_blocking_end_forgets_observed_blocking() {
    let machines = vec![blocker(0, 0.1)]; // budget 0us, at most 10% blocked
    let t0 = Instant::now() + Duration::from_secs(10);
    let us = |n: u64| t0 + Duration::from_micros(n);
    let mut f = Framework::new(&machines, 0.0, 0.0, t0, StdRng::seed_from_u64(1)).unwrap();

    // call 1: blocking begins 100us after start
    assert_eq!(blocks(&mut f, TriggerEvent::BlockingBegin { machine: MachineId::from_raw(0) }, us(100)), 0);
    // call 2: 1000us after start; the ongoing block counts up to now = 900us,
    // share 0.9 >= 0.1, and the framework (correctly) refuses to block
    assert_eq!(blocks(&mut f, TriggerEvent::NormalSent, us(1000)), 0);
    // call 3: BlockingEnd with a clock that ran backwards to start+50us.
    // Zero time has elapsed since call 2, so 900us have been blocked.
    assert_eq!(blocks(&mut f, TriggerEvent::BlockingEnd, us(50)), 0);
    // call 4: the clock is back at start+1000us. At least 900us of at most
    // 1950us (sum of forward steps; 1000us by timestamps) were blocked:
    // share >= 0.46 > 0.1, budget 0, no replace, blocking not active.
    assert_eq!(
        blocks(&mut f, TriggerEvent::NormalSent, us(1000)),
        0,
        "BlockOutgoing although 900us of blocking were observed (limit 10%)"
    );
}
