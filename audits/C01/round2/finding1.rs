// Belongs to: crates/maybenot/tests/  (integration test of the `maybenot` crate)
//
// C01 finding 1: a validated machine whose action samples a Binomial
// distribution through rand_distr's BTPE branch (trials * min(p, 1-p) >= 10)
// makes Framework::trigger_events PANIC for some seeds of the random source.
//
// rand_distr 0.4.3, binomial.rs, BTPE step 4 (right exponential tail):
//     y = f64_to_i64(x_r - v.ln() / lambda_r);
// `v` comes from Uniform::new(0., 1.), i.e. from [0, 1) INCLUDING 0.0 (all
// 52 mantissa bits of the draw are zero).  ln(0.0) = -inf, the argument is
// +inf and f64_to_i64 does `assert!(x < i64::MAX as f64)`  ->  panic.
//
// The event needs one particular 52-bit pattern from the generator, so it
// cannot be found by trying seeds of a 256-bit-seeded generator; the property
// however quantifies over all pseudo-random streams / all seeds.  To exhibit a
// concrete seed we drive the framework with SplitMix64 (Steele/Lea/Flood,
// the generator behind java.util.SplittableRandom and rand's own
// `seed_from_u64`), whose output function is a bijection of its 64-bit
// state: we invert it to obtain seeds whose stream contains such a draw at the
// position of `v`, and keep those where the preceding draw `u` selects the
// right tail.  No library source is modified; only public APIs are used.

use enum_map::enum_map;
use maybenot::action::Action;
use maybenot::dist::{Dist, DistType};
use maybenot::event::Event;
use maybenot::state::{State, Trans};
use maybenot::{Framework, Machine, TriggerEvent};
use rand_core::{impls, Error, RngCore};
use std::panic::{catch_unwind, AssertUnwindSafe};
use std::time::Instant;

const GAMMA: u64 = 0x9E37_79B9_7F4A_7C15;
const M1: u64 = 0xBF58_476D_1CE4_E5B9;
const M2: u64 = 0x94D0_49BB_1331_11EB;

/// SplitMix64, verbatim.
#[derive(Clone)]
struct SplitMix64 {
    state: u64,
}

impl SplitMix64 {
    fn new(seed: u64) -> Self {
        SplitMix64 { state: seed }
    }
}

fn mix(mut z: u64) -> u64 {
    z = (z ^ (z >> 30)).wrapping_mul(M1);
    z = (z ^ (z >> 27)).wrapping_mul(M2);
    z ^ (z >> 31)
}

impl RngCore for SplitMix64 {
    fn next_u32(&mut self) -> u32 {
        (self.next_u64() >> 32) as u32
    }
    fn next_u64(&mut self) -> u64 {
        self.state = self.state.wrapping_add(GAMMA);
        mix(self.state)
    }
    fn fill_bytes(&mut self, dest: &mut [u8]) {
        impls::fill_bytes_via_next(self, dest)
    }
    fn try_fill_bytes(&mut self, dest: &mut [u8]) -> Result<(), Error> {
        self.fill_bytes(dest);
        Ok(())
    }
}

// ---- inverse of the SplitMix64 output function (test-side helper only) ----

fn inv_mul(a: u64) -> u64 {
    // Newton iteration for the inverse of an odd number modulo 2^64
    let mut x = a;
    for _ in 0..6 {
        x = x.wrapping_mul(2u64.wrapping_sub(a.wrapping_mul(x)));
    }
    x
}

fn unxorshift(y: u64, s: u32) -> u64 {
    let mut x = y;
    let mut shift = s;
    while shift < 64 {
        x = y ^ (x >> s);
        shift += s;
    }
    x
}

fn unmix(mut z: u64) -> u64 {
    z = unxorshift(z, 31);
    z = z.wrapping_mul(inv_mul(M2));
    z = unxorshift(z, 27);
    z = z.wrapping_mul(inv_mul(M1));
    unxorshift(z, 30)
}

fn machine() -> Machine {
    // one state; every NormalSent re-enters it and schedules padding whose
    // timeout is Binomial(1000, 0.5) microseconds: all parameters are valid
    let mut s0 = State::new(enum_map! {
        Event::NormalSent => vec![Trans(0, 1.0)],
        _ => vec![],
    });
    s0.action = Some(Action::SendPadding {
        bypass: false,
        replace: false,
        timeout: Dist::new(
            DistType::Binomial {
                trials: 1000,
                probability: 0.5,
            },
            0.0,
            0.0,
        ),
        limit: None,
    });
    Machine::new(0, 0.0, 0, 0.0, vec![s0]).expect("the machine passes validation")
}

/// One framework, one call with one event. Returns Err(panic message) if the
/// call does not return normally.
fn one_call(seed: u64) -> Result<usize, String> {
    let machines = vec![machine()];
    let now = Instant::now();
    let mut f = Framework::new(&machines, 1.0, 1.0, now, SplitMix64::new(seed))
        .expect("framework accepts the validated machine");
    catch_unwind(AssertUnwindSafe(|| {
        f.trigger_events(&[TriggerEvent::NormalSent], now).count()
    }))
    .map_err(|e| {
        if let Some(s) = e.downcast_ref::<&str>() {
            s.to_string()
        } else if let Some(s) = e.downcast_ref::<String>() {
            s.clone()
        } else {
            "panic".to_string()
        }
    })
}

#[test]
fn splitmix_inverse_is_correct() {
    for z in [0u64, 1, 4095, 0xdead_beef, u64::MAX] {
        assert_eq!(mix(unmix(z)), z);
    }
}

#[test]
fn ordinary_seeds_are_fine() {
    for seed in 0..2000u64 {
        assert_eq!(one_call(seed), Ok(1));
    }
}

/// A fixed seed, found by the search below.
#[test]
fn fixed_seed_panics_trigger_events() {
    let seed = FIXED_SEED;
    let r = one_call(seed);
    assert!(
        r.is_ok(),
        "trigger_events did not return normally for SplitMix64 seed {seed:#x}: {r:?}"
    );
}

const FIXED_SEED: u64 = 0x475a_605e_d259_a787;

/// The search that produces such seeds: the draw used as `v` must have its
/// upper 52 bits zero (4096 possible outputs); it is the 3rd draw of the call
/// (1: transition sampling, 2: `u`, 3: `v`) in the first BTPE iteration.
#[test]
fn search_seeds_that_panic_trigger_events() {
    let prev = std::panic::take_hook();
    std::panic::set_hook(Box::new(|_| {}));
    let mut found = vec![];
    for low in 0..4096u64 {
        let state_at_v = unmix(low);
        for position in 1..=8u64 {
            let seed = state_at_v.wrapping_sub(GAMMA.wrapping_mul(position));
            if let Err(msg) = one_call(seed) {
                found.push((seed, position, msg));
            }
        }
    }
    std::panic::set_hook(prev);
    for (seed, position, msg) in found.iter().take(10) {
        println!("seed {seed:#018x} (v is draw {position}): {msg}");
    }
    println!("{} panicking seeds among 4096*8 candidates", found.len());
    assert!(
        found.is_empty(),
        "{} seeds make trigger_events panic, e.g. {:#018x}: {}",
        found.len(),
        found[0].0,
        found[0].2
    );
}
