// Finding 1 for property C01 -- belongs in crates/maybenot/tests/ (crate `maybenot`).
//
// A machine that passes validation (Binomial { trials: 1e9, probability: 6e-9 } as the
// timeout of a SendPadding action; both within the bounds enforced by Dist::validate)
// makes Framework::trigger_events spin forever for some seeds of the random source.
//
// Test 1 uses a StdRng seed (11621206) for which the very first trigger_events call
// with the single event NormalSent never returns. Test 2 uses seed 0 and simply keeps
// feeding single events: the same hang is reached after some millions of calls
// (expected about one in 12.5 million Binomial draws).
//
// Tests 1 and 2 FAIL on the unmodified tree (the call never returns; a watchdog reports it);
// the control test passes.

use enum_map::enum_map;
use maybenot::action::Action;
use maybenot::dist::{Dist, DistType};
use maybenot::event::Event;
use maybenot::state::{State, Trans};
use maybenot::{Framework, Machine, TriggerEvent};
use rand::rngs::StdRng;
use rand::SeedableRng;
use std::sync::atomic::{AtomicU64, Ordering};
use std::sync::{mpsc, Arc};
use std::time::{Duration, Instant};

fn binomial_timeout(probability: f64) -> Dist {
    let d = Dist::new(
        DistType::Binomial {
            trials: 1_000_000_000,
            probability,
        },
        0.0,
        0.0,
    );
    assert!(d.validate().is_ok(), "the distribution passes validation");
    d
}

/// state 0: no action, NormalSent -> state 1
/// state 1: SendPadding with the Binomial timeout, NormalSent -> state 0, NormalRecv -> state 1
fn machine(probability: f64) -> Machine {
    let s0 = State::new(enum_map! {
        Event::NormalSent => vec![Trans(1, 1.0)],
        Event::NormalRecv => vec![Trans(1, 1.0)],
        _ => vec![],
    });
    let mut s1 = State::new(enum_map! {
        Event::NormalSent => vec![Trans(0, 1.0)],
        Event::NormalRecv => vec![Trans(1, 1.0)],
        _ => vec![],
    });
    s1.action = Some(Action::SendPadding {
        bypass: false,
        replace: false,
        timeout: binomial_timeout(probability),
        limit: None,
    });
    // generous allowances so that the action is always scheduled
    Machine::new(u64::MAX, 1.0, 0, 0.0, vec![s0, s1]).expect("machine passes validation")
}

#[test]
fn first_call_never_returns_for_seed_11621206() {
    let (tx, rx) = mpsc::channel();
    std::thread::spawn(move || {
        let machines = vec![machine(6e-9)];
        let t0 = Instant::now();
        let mut f = Framework::new(&machines, 1.0, 1.0, t0, StdRng::seed_from_u64(11621206))
            .expect("framework creation succeeds");
        let n = f.trigger_events(&[TriggerEvent::NormalSent], t0).count();
        let _ = tx.send(n);
    });
    let r = rx.recv_timeout(Duration::from_secs(20));
    assert!(
        r.is_ok(),
        "trigger_events(&[NormalSent]) did not return within 20 s (unbounded loop while sampling the action timeout)"
    );
}

/// Control: the same history and seed with probability 9e-9 (for which the rounding of
/// 1 - p happens to go the harmless way) returns at once, so the watchdog is sound.
#[test]
fn control_same_seed_other_probability_returns() {
    let machines = vec![machine(9e-9)];
    let t0 = Instant::now();
    let mut f = Framework::new(&machines, 1.0, 1.0, t0, StdRng::seed_from_u64(11621206)).unwrap();
    assert_eq!(f.trigger_events(&[TriggerEvent::NormalSent], t0).count(), 1);
}

#[test]
fn seed_zero_eventually_hangs() {
    let progress = Arc::new(AtomicU64::new(0));
    let p2 = progress.clone();
    let (tx, rx) = mpsc::channel();
    const CALLS: u64 = 60_000_000;
    std::thread::spawn(move || {
        let machines = vec![machine(6e-9)];
        let t0 = Instant::now();
        let mut f = Framework::new(&machines, 1.0, 1.0, t0, StdRng::seed_from_u64(0)).unwrap();
        for i in 0..CALLS {
            let _ = f.trigger_events(&[TriggerEvent::NormalRecv], t0).count();
            p2.store(i + 1, Ordering::Relaxed);
        }
        let _ = tx.send(());
    });
    // watchdog: the call counter must keep advancing
    let mut last = 0;
    loop {
        if rx.recv_timeout(Duration::from_secs(15)).is_ok() {
            return; // all calls returned
        }
        let now = progress.load(Ordering::Relaxed);
        assert!(
            now > last,
            "trigger_events call number {} (seed 0) has not returned for 15 s",
            now + 1
        );
        last = now;
    }
}
