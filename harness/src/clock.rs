//! Virtual clock: `VT` instants and `VD` durations, both in whole microseconds.
//!
//! The framework is generic in its time source, so the explorer owns time
//! completely: a time step is part of the operation alphabet (0, tiny, huge,
//! backwards). Arithmetic is *checked*: an overflow here would be a harness
//! bug or a subject doing unbounded accumulation, and must not wrap silently.
use maybenot::time::{Duration, Instant};

#[derive(Clone, Copy, Debug, PartialEq, Eq, PartialOrd, Ord, Hash)]
pub struct VT(pub u64);
#[derive(Clone, Copy, Debug, PartialEq, Eq, PartialOrd, Ord, Hash)]
pub struct VD(pub u64);

impl std::ops::AddAssign for VD {
    fn add_assign(&mut self, o: VD) {
        self.0 = self.0.checked_add(o.0).expect("virtual duration overflow");
    }
}
impl Duration for VD {
    fn zero() -> Self {
        VD(0)
    }
    fn from_micros(m: u64) -> Self {
        VD(m)
    }
    fn is_zero(&self) -> bool {
        self.0 == 0
    }
    /// Exact u64 -> f64 conversions followed by one correctly rounded
    /// division (x/0 = inf, 0/0 = NaN exactly as for `std::time::Duration`'s
    /// `as_secs_f64` quotient).
    fn div_duration_f64(self, r: Self) -> f64 {
        self.0 as f64 / r.0 as f64
    }
}
impl Instant for VT {
    type Duration = VD;
    fn saturating_duration_since(&self, e: Self) -> VD {
        VD(self.0.saturating_sub(e.0))
    }
}

/// Apply a signed step to a time value (clamped at 0: the virtual epoch).
pub fn step(t: u64, delta: i64) -> u64 {
    if delta >= 0 {
        t.checked_add(delta as u64).expect("virtual time overflow")
    } else {
        t.saturating_sub(delta.unsigned_abs())
    }
}
