//! E4 — closed simulator systems: enumeration helpers, running the real
//! `sim_advanced` / `sim`, and the *replay binding*: with no integration delays
//! every main-loop iteration appends exactly one event to the unfiltered
//! output, in processing order; feeding one side's events, one per call with
//! their time stamps, into a fresh real `Framework` with the same seed yields
//! (by C05 determinism) exactly the actions the simulator received.
use crate::fam::{c, mk, st_map, NOBUDGET};
use crate::types::{conv_std, Act};
use enum_map::{enum_map, EnumMap};
use maybenot::action::{Action, Timer};
use maybenot::counter::{Counter, Operation};
use maybenot::event::{Event, TriggerEvent};
use maybenot::state::Trans;
use maybenot::{Framework, Machine};
use maybenot_simulator::network::Network;
use maybenot_simulator::queue::SimQueue;
use maybenot_simulator::{parse_trace, sim_advanced, SimEvent, SimulatorArgs};
use rand_core::SeedableRng;
use rand_xoshiro::Xoshiro256StarStar;
use serde_json::{json, Value};
use std::panic::{catch_unwind, AssertUnwindSafe};
use std::time::{Duration, Instant};

/// One packet of the input trace: (time in ns from the start, sent by the client?)
pub type Pkt = (u64, bool);

#[derive(Clone, Debug)]
pub struct SimSys {
    pub trace: Vec<Pkt>,
    pub delay_ns: u64,
    pub pps: Option<usize>,
    pub client: Vec<Machine>,
    pub server: Vec<Machine>,
    pub client_names: Vec<String>,
    pub server_names: Vec<String>,
    /// (padding client, blocking client, padding server, blocking server)
    pub fracs: (f64, f64, f64, f64),
    pub seed: u64,
    pub max_iter: usize,
    pub max_len: usize,
    pub cont: bool,
    pub only_client: bool,
    pub only_net: bool,
    /// how the trace text is written: 0 "s"/"r"; 1 "sn"/"rn"; 2 and 3 additionally interleave "sp"/"rp"
    /// lines (padding packets of a recorded trace, which the parser ignores) at every packet time
    /// further bits: 4 = "\r\n" line endings, 8 = the documented third column (size) on every line,
    /// 16 = line terminator after the last line too
    pub trace_style: u8,
    /// constant reporting delay of the (client, server) integration in us; 0 = no integration on that side.
    /// Only the C18 integration phase uses it (the replay binding assumes no integration delays).
    pub report_delay_us: (u64, u64),
    /// run the simulation on a thread with a 2 MiB stack (Rust's default for spawned threads) instead of the
    /// worker's large one: recursion whose depth grows with the input is then a crash, not a silent success
    pub small_stack: bool,
    /// constant *trigger* delay of the (client, server) integration in us (C18 integration phase only)
    pub trigger_delay_us: (u64, u64),
    /// run through the `sim()` entry point (network delay, max_trace_length, only_network_activity only)
    pub api_sim: bool,
}
impl SimSys {
    pub fn new(trace: Vec<Pkt>, delay_ns: u64) -> Self {
        SimSys {
            trace,
            delay_ns,
            pps: None,
            client: vec![],
            server: vec![],
            client_names: vec![],
            server_names: vec![],
            fracs: (0.0, 0.0, 0.0, 0.0),
            seed: 0,
            max_iter: 120,
            max_len: 0,
            cont: true,
            only_client: false,
            only_net: false,
            trace_style: 0,
            report_delay_us: (0, 0),
            small_stack: false,
            trigger_delay_us: (0, 0),
            api_sim: false,
        }
    }
    pub fn trace_text(&self) -> String {
        let long = self.trace_style % 2 == 1;
        let interleave = self.trace_style & 2 != 0;
        let size = if self.trace_style & 8 != 0 { ",1500" } else { "" };
        let eol = if self.trace_style & 4 != 0 { "\r\n" } else { "\n" };
        let mut lines = vec![];
        for (i, (t, s)) in self.trace.iter().enumerate() {
            if interleave {
                lines.push(format!("{},{}{size}", t, if i % 2 == 0 { "sp" } else { "rp" }));
            }
            lines.push(format!("{},{}{size}", t, match (*s, long) { (true, false) => "s", (true, true) => "sn", (false, false) => "r", (false, true) => "rn" }));
            if interleave && i % 3 == 0 {
                lines.push(format!("{},{}{size}", t + 1, if *s { "rp" } else { "sp" }));
            }
        }
        let mut text = lines.join(eol);
        if self.trace_style & 16 != 0 {
            text.push_str(eol);
        }
        text
    }
    fn integration(report_us: u64, trigger_us: u64) -> Option<maybenot_simulator::integration::Integration> {
        use maybenot_simulator::integration::{BinDist, Integration};
        if report_us == 0 && trigger_us == 0 {
            return None;
        }
        // bins are in milliseconds
        let constant = |us: u64| { let ms = us as f64 / 1000.0; BinDist::new(&format!(r#"{{"({ms}, {ms})": 1.0}}"#)).expect("bin dist") };
        Some(Integration { action_delay: constant(0), reporting_delay: constant(report_us), trigger_delay: constant(trigger_us) })
    }
    pub fn network(&self) -> Network {
        Network::new(Duration::from_nanos(self.delay_ns), self.pps)
    }
    pub fn args(&self) -> SimulatorArgs {
        let mut a = SimulatorArgs::new(self.network(), self.max_len, self.only_net);
        // 0 = no iteration bound: keep whatever SimulatorArgs::new chose (it must be "none")
        if self.max_iter > 0 {
            a.max_sim_iterations = self.max_iter;
        }
        a.continue_after_all_normal_packets_processed = self.cont;
        a.only_client_events = self.only_client;
        a.max_padding_frac_client = self.fracs.0;
        a.max_blocking_frac_client = self.fracs.1;
        a.max_padding_frac_server = self.fracs.2;
        a.max_blocking_frac_server = self.fracs.3;
        a.insecure_rng_seed = Some(self.seed);
        a.client_integration = Self::integration(self.report_delay_us.0, self.trigger_delay_us.0);
        a.server_integration = Self::integration(self.report_delay_us.1, self.trigger_delay_us.1);
        a
    }
    pub fn queue(&self) -> SimQueue {
        if self.report_delay_us != (0, 0) || self.trigger_delay_us != (0, 0) {
            let (ci, si) = (Self::integration(self.report_delay_us.0, self.trigger_delay_us.0), Self::integration(self.report_delay_us.1, self.trigger_delay_us.1));
            return maybenot_simulator::parse_trace_advanced(&self.trace_text(), self.network(), ci.as_ref(), si.as_ref());
        }
        parse_trace(&self.trace_text(), self.network())
    }
    pub fn to_json(&self) -> Value {
        json!({
            "trace_ns": self.trace.iter().map(|(t, s)| json!([t, if *s { "s" } else { "r" }])).collect::<Vec<_>>(),
            "delay_ns": self.delay_ns,
            "pps": self.pps,
            "client_machines": self.client.iter().map(|m| m.serialize()).collect::<Vec<_>>(),
            "server_machines": self.server.iter().map(|m| m.serialize()).collect::<Vec<_>>(),
            "client_names": self.client_names,
            "server_names": self.server_names,
            "fracs": [self.fracs.0, self.fracs.1, self.fracs.2, self.fracs.3],
            "seed": self.seed,
            "max_sim_iterations": self.max_iter,
            "max_trace_length": self.max_len,
            "continue_after_all_normal_packets_processed": self.cont,
            "only_client_events": self.only_client,
            "only_network_activity": self.only_net,
            "trace_style": self.trace_style,
            "trace_text": self.trace_text(),
            "reporting_delay_us": [self.report_delay_us.0, self.report_delay_us.1],
            "small_stack": self.small_stack,
            "trigger_delay_us": [self.trigger_delay_us.0, self.trigger_delay_us.1],
            "api_sim": self.api_sim,
        })
    }
    pub fn from_json(v: &Value) -> Result<SimSys, String> {
        let mut s = SimSys::new(vec![], v["delay_ns"].as_u64().ok_or("delay")?);
        for p in v["trace_ns"].as_array().ok_or("trace")? {
            s.trace.push((p[0].as_u64().ok_or("t")?, p[1].as_str() == Some("s")));
        }
        s.pps = v["pps"].as_u64().map(|x| x as usize);
        let ms = |k: &str| -> Result<Vec<Machine>, String> {
            crate::explore::machines_from_strings(&v[k].as_array().ok_or("machines")?.iter().map(|x| x.as_str().unwrap_or("").to_string()).collect::<Vec<_>>())
        };
        s.client = ms("client_machines")?;
        s.server = ms("server_machines")?;
        let f = &v["fracs"];
        s.fracs = (f[0].as_f64().unwrap_or(0.0), f[1].as_f64().unwrap_or(0.0), f[2].as_f64().unwrap_or(0.0), f[3].as_f64().unwrap_or(0.0));
        s.seed = v["seed"].as_u64().unwrap_or(0);
        s.max_iter = v["max_sim_iterations"].as_u64().unwrap_or(0) as usize;
        s.max_len = v["max_trace_length"].as_u64().unwrap_or(0) as usize;
        s.cont = v["continue_after_all_normal_packets_processed"].as_bool().unwrap_or(true);
        s.only_client = v["only_client_events"].as_bool().unwrap_or(false);
        s.only_net = v["only_network_activity"].as_bool().unwrap_or(false);
        s.trace_style = v["trace_style"].as_u64().unwrap_or(0) as u8;
        s.report_delay_us = (v["reporting_delay_us"][0].as_u64().unwrap_or(0), v["reporting_delay_us"][1].as_u64().unwrap_or(0));
        s.small_stack = v["small_stack"].as_bool().unwrap_or(false);
        s.trigger_delay_us = (v["trigger_delay_us"][0].as_u64().unwrap_or(0), v["trigger_delay_us"][1].as_u64().unwrap_or(0));
        s.api_sim = v["api_sim"].as_bool().unwrap_or(false);
        Ok(s)
    }
}

/// An output event with its time relative to the first base event, in ns.
#[derive(Clone, Debug, PartialEq, Eq, Hash)]
pub struct Ev {
    pub t: u64,
    pub client: bool,
    pub event: TriggerEvent,
    pub pad: bool,
    pub bypass: bool,
    pub replace: bool,
}
pub fn ev_string(e: &Ev) -> String {
    format!("{}ns {} {}{}{}{}", e.t, if e.client { "C" } else { "S" }, crate::types::ev_to_string(&e.event), if e.pad { " pad" } else { "" }, if e.bypass { " bypass" } else { "" }, if e.replace { " replace" } else { "" })
}

pub struct Run {
    pub first: Instant,
    pub raw: Vec<SimEvent>,
    pub evs: Vec<Ev>,
}

pub fn to_evs(raw: &[SimEvent], first: Instant) -> Vec<Ev> {
    raw.iter()
        .map(|e| {
            let (bypass, replace) = e.verif_flags();
            Ev { t: e.time.saturating_duration_since(first).as_nanos() as u64, client: e.client, event: e.event.clone(), pad: e.contains_padding, bypass, replace }
        })
        .collect()
}

/// Run the real simulator on a clone of `sq`. Err = the panic message.
pub fn run_on(sys: &SimSys, sq: &SimQueue) -> Result<Run, String> {
    let mut q = sq.clone();
    let first = q.get_first_time().ok_or("empty trace")?;
    let args = sys.args();
    let r = if sys.api_sim {
        catch_unwind(AssertUnwindSafe(|| maybenot_simulator::sim(&sys.client, &sys.server, &mut q, Duration::from_nanos(sys.delay_ns), sys.max_len, sys.only_net)))
    } else if sys.small_stack {
        std::thread::scope(|sc| {
            std::thread::Builder::new()
                .stack_size(2 << 20)
                .spawn_scoped(sc, || catch_unwind(AssertUnwindSafe(|| sim_advanced(&sys.client, &sys.server, &mut q, &args))))
                .expect("spawn")
                .join()
                .unwrap_or_else(|e| Err(e))
        })
    } else {
        catch_unwind(AssertUnwindSafe(|| sim_advanced(&sys.client, &sys.server, &mut q, &args)))
    };
    match r {
        Ok(raw) => {
            let evs = to_evs(&raw, first);
            Ok(Run { first, raw, evs })
        }
        Err(_) => Err(crate::explore::last_panic()),
    }
}
pub fn run(sys: &SimSys) -> Result<Run, String> {
    let sq = match catch_unwind(AssertUnwindSafe(|| sys.queue())) {
        Ok(q) => q,
        Err(_) => return Err(format!("parse_trace panicked: {}", crate::explore::last_panic())),
    };
    run_on(sys, &sq)
}

/// Replay binding: the actions the simulator received from one side's
/// framework at each of that side's events (durations in ns).
pub fn replay_side(sys: &SimSys, run: &Run, client: bool) -> Result<Vec<(Ev, Vec<Act>)>, String> {
    let ms: &[Machine] = if client { &sys.client } else { &sys.server };
    let (pf, bf) = if client { (sys.fracs.0, sys.fracs.1) } else { (sys.fracs.2, sys.fracs.3) };
    let seed = if client { sys.seed } else { sys.seed.wrapping_add(1) };
    let mut f = Framework::new(ms, pf, bf, run.first, Xoshiro256StarStar::seed_from_u64(seed)).map_err(|e| format!("{:?}", e))?;
    let mut out = vec![];
    for (raw, ev) in run.raw.iter().zip(run.evs.iter()) {
        if ev.client != client {
            continue;
        }
        let acts: Vec<Act> = f.trigger_events(&[raw.event.clone()], raw.time).map(conv_std).collect();
        out.push((ev.clone(), acts));
    }
    Ok(out)
}

// ---------------------------------------------------------------------------
// Trace enumeration
// ---------------------------------------------------------------------------

/// All traces of exactly `len` packets with gaps from `gaps_ns` and both directions.
pub fn traces(len: usize, gaps_ns: &[u64]) -> Vec<Vec<Pkt>> {
    let base = 2 * gaps_ns.len();
    let mut out = vec![];
    for code in 0..base.pow(len as u32) {
        let mut x = code;
        let mut t = 0u64;
        let mut pk = vec![];
        for i in 0..len {
            let g = gaps_ns[x % gaps_ns.len()];
            x /= gaps_ns.len();
            let dir = x % 2;
            x /= 2;
            if i > 0 {
                t += g;
            } else if g != gaps_ns[0] {
                // the first packet defines time zero: skip duplicates of the same trace
                pk.clear();
                break;
            }
            pk.push((t, dir == 0));
        }
        if pk.len() == len {
            out.push(pk);
        }
    }
    out
}

// ---------------------------------------------------------------------------
// S-library: deterministic two-state gadget machines
// ---------------------------------------------------------------------------

/// start --trigger--> worker[action]; in the worker `again` re-enters it
/// (re-issues the action) and `back` returns to start.
pub fn gadget(trig: Event, action: Action, again: Option<Event>, back: Option<Event>) -> Machine {
    let mut t0: EnumMap<Event, Vec<Trans>> = enum_map! { _ => vec![] };
    t0[trig] = vec![Trans(1, 1.0)];
    let mut t1: EnumMap<Event, Vec<Trans>> = enum_map! { _ => vec![] };
    if let Some(a) = again {
        t1[a] = vec![Trans(1, 1.0)];
    }
    if let Some(b) = back {
        if Some(b) != again {
            t1[b] = vec![Trans(0, 1.0)];
        }
    }
    mk((1_000_000, 1.0, 1_000_000_000, 1.0), vec![st_map(t0, None, (None, None)), st_map(t1, Some(action), (None, None))])
}

#[derive(Clone)]
pub struct Gadget {
    pub name: String,
    pub m: Machine,
    pub kind: char, // p pad, b block, t timer, c cancel, r re-issuing padder, x other
    pub zero_dur: bool,
}

pub fn s_library(level: usize) -> Vec<Gadget> {
    use Event::*;
    let mut lib = vec![];
    let flags = [(false, false), (true, false), (false, true), (true, true)];
    let tos: &[f64] = if level == 0 { &[0.0, 1.0] } else { &[0.0, 1.0, 3.0] };
    let durs: &[f64] = if level == 0 { &[1.0, 2.0, 0.0] } else { &[1.0, 2.0, 5.0, 0.0] };
    for &to in tos {
        for (bp, rp) in flags {
            for trig in [NormalSent, TunnelRecv] {
                for again in [None, Some(PaddingSent)] {
                    if level == 0 && trig == TunnelRecv && again.is_some() {
                        continue;
                    }
                    lib.push(Gadget { name: format!("pad(to{to},by{},rp{},{trig:?},{again:?})", bp as u8, rp as u8), m: gadget(trig, Action::SendPadding { bypass: bp, replace: rp, timeout: c(to), limit: Some(c(3.0)) }, again, None), kind: 'p', zero_dur: false });
                }
            }
            for &dur in durs {
                for again in [None, Some(BlockingEnd)] {
                    if level == 0 && again.is_some() && to > 0.0 {
                        continue;
                    }
                    lib.push(Gadget { name: format!("blk(to{to},dur{dur},by{},rp{},{again:?})", bp as u8, rp as u8), m: gadget(NormalSent, Action::BlockOutgoing { bypass: bp, replace: rp, timeout: c(to), duration: c(dur), limit: Some(c(2.0)) }, again, None), kind: 'b', zero_dur: dur == 0.0 });
                }
            }
        }
    }
    // tight budgets: blocking / padding fractions that actually bind (elapsed time and packet counts matter)
    for (nm, budget) in [("frac0.5", (0u64, 0.0, 0u64, 0.5)), ("allow2us,frac0.25", (0, 0.0, 2, 0.25))] {
        for again in [BlockingEnd, NormalSent] {
            let mut t0: EnumMap<Event, Vec<Trans>> = enum_map! { _ => vec![] };
            t0[NormalSent] = vec![Trans(1, 1.0)];
            let mut t1: EnumMap<Event, Vec<Trans>> = enum_map! { _ => vec![] };
            t1[again] = vec![Trans(1, 1.0)];
            lib.push(Gadget { name: format!("tightblk({nm},to1,dur2,{again:?})"), m: mk(budget, vec![st_map(t0, None, (None, None)), st_map(t1, Some(Action::BlockOutgoing { bypass: false, replace: false, timeout: c(1.0), duration: c(2.0), limit: Some(c(6.0)) }), (None, None))]), kind: 'b', zero_dur: false });
        }
    }
    for (nm, budget) in [("allow1,frac0.5", (1u64, 0.5, 0u64, 0.0)), ("frac0.25", (0, 0.25, 0, 0.0))] {
        let mut t0: EnumMap<Event, Vec<Trans>> = enum_map! { _ => vec![] };
        t0[NormalSent] = vec![Trans(1, 1.0)];
        let mut t1: EnumMap<Event, Vec<Trans>> = enum_map! { _ => vec![] };
        t1[PaddingSent] = vec![Trans(1, 1.0)];
        t1[NormalSent] = vec![Trans(1, 1.0)];
        lib.push(Gadget { name: format!("tightpad({nm},to1)"), m: mk(budget, vec![st_map(t0, None, (None, None)), st_map(t1, Some(Action::SendPadding { bypass: false, replace: false, timeout: c(1.0), limit: Some(c(6.0)) }), (None, None))]), kind: 'p', zero_dur: false });
    }
    // blockers triggered by a received packet (so that both sides block in one run)
    for (bp, rp) in flags {
        lib.push(Gadget { name: format!("blkrecv(to1,dur2,by{},rp{})", bp as u8, rp as u8), m: gadget(TunnelRecv, Action::BlockOutgoing { bypass: bp, replace: rp, timeout: c(1.0), duration: c(2.0), limit: Some(c(2.0)) }, None, None), kind: 'b', zero_dur: false });
    }
    // actions re-issued before they fire
    for &to in &[1.0, 3.0] {
        for again in [NormalSent, TunnelRecv, TunnelSent] {
            lib.push(Gadget { name: format!("repad(to{to},{again:?})"), m: gadget(NormalSent, Action::SendPadding { bypass: false, replace: false, timeout: c(to), limit: None }, Some(again), None), kind: 'r', zero_dur: false });
        }
    }
    lib.push(Gadget { name: "reblk(to3,dur2,NormalSent)".into(), m: gadget(NormalSent, Action::BlockOutgoing { bypass: false, replace: false, timeout: c(3.0), duration: c(2.0), limit: None }, Some(NormalSent), None), kind: 'b', zero_dur: false });
    // one machine switching between two action kinds whose due instants coincide or cross
    for (n1, a1, gapname, n2, a2) in [
        ("pad3", Action::SendPadding { bypass: false, replace: false, timeout: c(3.0), limit: None }, "NormalSent", "blk2", Action::BlockOutgoing { bypass: false, replace: false, timeout: c(2.0), duration: c(2.0), limit: None }),
        ("pad3", Action::SendPadding { bypass: false, replace: false, timeout: c(3.0), limit: None }, "NormalSent", "blk0", Action::BlockOutgoing { bypass: true, replace: false, timeout: c(0.0), duration: c(1.0), limit: None }),
        ("blk3", Action::BlockOutgoing { bypass: false, replace: true, timeout: c(3.0), duration: c(2.0), limit: None }, "NormalSent", "pad2", Action::SendPadding { bypass: true, replace: false, timeout: c(2.0), limit: None }),
        ("pad1", Action::SendPadding { bypass: false, replace: true, timeout: c(1.0), limit: None }, "TunnelRecv", "blk0", Action::BlockOutgoing { bypass: false, replace: false, timeout: c(0.0), duration: c(2.0), limit: None }),
        ("blk7", Action::BlockOutgoing { bypass: false, replace: false, timeout: c(7.0), duration: c(1.0), limit: None }, "TunnelRecv", "pad0", Action::SendPadding { bypass: false, replace: false, timeout: c(0.0), limit: None }),
    ] {
        let ev = if gapname == "NormalSent" { NormalSent } else { TunnelRecv };
        let mut t0: EnumMap<Event, Vec<Trans>> = enum_map! { _ => vec![] };
        t0[NormalSent] = vec![Trans(1, 1.0)];
        let mut t1: EnumMap<Event, Vec<Trans>> = enum_map! { _ => vec![] };
        t1[ev] = vec![Trans(2, 1.0)];
        let mut t2: EnumMap<Event, Vec<Trans>> = enum_map! { _ => vec![] };
        t2[ev] = vec![Trans(1, 1.0)];
        lib.push(Gadget { name: format!("switch({n1}->{n2},{gapname})"), m: mk((1_000_000, 1.0, 1_000_000_000, 1.0), vec![st_map(t0, None, (None, None)), st_map(t1, Some(a1), (None, None)), st_map(t2, Some(a2), (None, None))]), kind: 'r', zero_dur: false });
    }
    // a zero-timeout padding that the same packet's TunnelSent cancels (cancel at the due instant)
    {
        let mut t0: EnumMap<Event, Vec<Trans>> = enum_map! { _ => vec![] };
        t0[NormalSent] = vec![Trans(1, 1.0)];
        let mut t1: EnumMap<Event, Vec<Trans>> = enum_map! { _ => vec![] };
        t1[TunnelSent] = vec![Trans(2, 1.0)];
        let mut t2: EnumMap<Event, Vec<Trans>> = enum_map! { _ => vec![] };
        t2[NormalSent] = vec![Trans(1, 1.0)];
        for (tn, tk) in [("action", Timer::Action), ("all", Timer::All)] {
            lib.push(Gadget { name: format!("pad0-cancelled-by-TunnelSent({tn})"), m: mk((1_000_000, 1.0, 0, 0.0), vec![st_map(t0.clone(), None, (None, None)), st_map(t1.clone(), Some(Action::SendPadding { bypass: false, replace: false, timeout: c(0.0), limit: None }), (None, None)), st_map(t2.clone(), Some(Action::Cancel { timer: tk }), (None, None))]), kind: 'c', zero_dur: false });
        }
    }
    // an action timer due exactly when a block of the same length ends, withdrawn or re-issued on BlockingEnd
    for d in [1.0, 2.0] {
        let mut t0: EnumMap<Event, Vec<Trans>> = enum_map! { _ => vec![] };
        t0[NormalSent] = vec![Trans(1, 1.0)];
        let mut t1: EnumMap<Event, Vec<Trans>> = enum_map! { _ => vec![] };
        t1[BlockingEnd] = vec![Trans(2, 1.0)];
        let t2: EnumMap<Event, Vec<Trans>> = enum_map! { _ => vec![] };
        for (tn, tk) in [("action", Timer::Action), ("all", Timer::All)] {
            lib.push(Gadget { name: format!("pad{d}-cancelled-by-BlockingEnd({tn})"), m: mk((1_000_000, 1.0, 0, 0.0), vec![st_map(t0.clone(), None, (None, None)), st_map(t1.clone(), Some(Action::SendPadding { bypass: false, replace: false, timeout: c(d), limit: None }), (None, None)), st_map(t2.clone(), Some(Action::Cancel { timer: tk }), (None, None))]), kind: 'c', zero_dur: false });
        }
        let mut r1: EnumMap<Event, Vec<Trans>> = enum_map! { _ => vec![] };
        r1[BlockingEnd] = vec![Trans(1, 1.0)];
        lib.push(Gadget { name: format!("pad{d}-reissued-on-BlockingEnd"), m: mk((1_000_000, 1.0, 0, 0.0), vec![st_map(t0.clone(), None, (None, None)), st_map(r1, Some(Action::SendPadding { bypass: true, replace: false, timeout: c(d), limit: Some(c(3.0)) }), (None, None))]), kind: 'r', zero_dur: false });
    }
    // a pending BlockOutgoing (timeout 3) withdrawn by Cancel or replaced by a padding action when a packet leaves
    for (bp, rp) in [(true, true), (false, false)] {
        let mut t0: EnumMap<Event, Vec<Trans>> = enum_map! { _ => vec![] };
        t0[NormalSent] = vec![Trans(1, 1.0)];
        let mut t1: EnumMap<Event, Vec<Trans>> = enum_map! { _ => vec![] };
        t1[TunnelSent] = vec![Trans(2, 1.0)];
        let t2: EnumMap<Event, Vec<Trans>> = enum_map! { _ => vec![] };
        let blk = Action::BlockOutgoing { bypass: bp, replace: rp, timeout: c(3.0), duration: c(2.0), limit: None };
        lib.push(Gadget { name: format!("blk3(by{},rp{})-cancelled-by-TunnelSent", bp as u8, rp as u8), m: mk((1_000_000, 1.0, 1_000_000_000, 1.0), vec![st_map(t0.clone(), None, (None, None)), st_map(t1.clone(), Some(blk), (None, None)), st_map(t2.clone(), Some(Action::Cancel { timer: Timer::Action }), (None, None))]), kind: 'c', zero_dur: false });
        lib.push(Gadget { name: format!("blk3(by{},rp{})-replaced-by-padding-on-TunnelSent", bp as u8, rp as u8), m: mk((1_000_000, 1.0, 1_000_000_000, 1.0), vec![st_map(t0.clone(), None, (None, None)), st_map(t1.clone(), Some(blk), (None, None)), st_map(t2.clone(), Some(Action::SendPadding { bypass: false, replace: false, timeout: c(5.0), limit: None }), (None, None))]), kind: 'r', zero_dur: false });
    }
    // internal timers
    let tdurs: &[f64] = if level == 0 { &[0.0, 1.0, 2.0] } else { &[0.0, 1.0, 2.0, 5.0] };
    for &du in tdurs {
        for rp in [false, true] {
            for again in [NormalSent, TunnelRecv, TimerEnd, TimerBegin] {
                if level == 0 && again == TimerBegin && du > 1.0 {
                    continue;
                }
                lib.push(Gadget { name: format!("tmr(dur{du},rp{},{again:?})", rp as u8), m: gadget(NormalSent, Action::UpdateTimer { replace: rp, duration: c(du), limit: if again == TimerBegin || again == TimerEnd { Some(c(3.0)) } else { None } }, Some(again), None), kind: 't', zero_dur: du == 0.0 });
            }
        }
    }
    // an unlimited self-restarting 1 us timer (bounded only by the run's stop conditions): many events that are not network activity
    lib.push(Gadget { name: "tmr-restarting(dur1)".into(), m: gadget(NormalSent, Action::UpdateTimer { replace: false, duration: c(1.0), limit: None }, Some(TimerEnd), None), kind: 't', zero_dur: false });
    // a machine that pads when its internal timer ends
    {
        let mut t0: EnumMap<Event, Vec<Trans>> = enum_map! { _ => vec![] };
        t0[NormalSent] = vec![Trans(1, 1.0)];
        let mut t1: EnumMap<Event, Vec<Trans>> = enum_map! { _ => vec![] };
        t1[TimerEnd] = vec![Trans(2, 1.0)];
        let mut t2: EnumMap<Event, Vec<Trans>> = enum_map! { _ => vec![] };
        t2[PaddingSent] = vec![Trans(1, 1.0)];
        lib.push(Gadget {
            name: "tmr-then-pad".into(),
            m: mk((1_000_000, 1.0, 0, 0.0), vec![
                st_map(t0, None, (None, None)),
                st_map(t1, Some(Action::UpdateTimer { replace: false, duration: c(2.0), limit: Some(c(2.0)) }), (None, None)),
                st_map(t2, Some(Action::SendPadding { bypass: true, replace: false, timeout: c(1.0), limit: None }), (None, None)),
            ]),
            kind: 't',
            zero_dur: false,
        });
    }
    // cancels of each timer kind, triggered at different points
    for trig in [TunnelRecv, TunnelSent, NormalRecv] {
        for (tn, tk) in [("action", Timer::Action), ("internal", Timer::Internal), ("all", Timer::All)] {
            // the cancelling machine also owns an action / a timer to cancel: start --NormalSent--> pad state --trig--> cancel state
            for own in 0..2 {
                let mut t0: EnumMap<Event, Vec<Trans>> = enum_map! { _ => vec![] };
                t0[NormalSent] = vec![Trans(1, 1.0)];
                let mut t1: EnumMap<Event, Vec<Trans>> = enum_map! { _ => vec![] };
                t1[trig] = vec![Trans(2, 1.0)];
                let mut t2: EnumMap<Event, Vec<Trans>> = enum_map! { _ => vec![] };
                t2[NormalSent] = vec![Trans(1, 1.0)];
                let a1 = if own == 0 { Action::SendPadding { bypass: false, replace: false, timeout: c(3.0), limit: None } } else { Action::UpdateTimer { replace: true, duration: c(3.0), limit: None } };
                lib.push(Gadget { name: format!("cancel({tn},{trig:?},own{own})"), m: mk((1_000_000, 1.0, 0, 0.0), vec![st_map(t0, None, (None, None)), st_map(t1, Some(a1), (None, None)), st_map(t2, Some(Action::Cancel { timer: tk }), (None, None))]), kind: 'c', zero_dur: false });
            }
        }
    }
    // counter gadget: pads after the second normal packet (CounterZero), signal gadget pair
    {
        let mut t0: EnumMap<Event, Vec<Trans>> = enum_map! { _ => vec![] };
        t0[NormalSent] = vec![Trans(1, 1.0)];
        let mut t1: EnumMap<Event, Vec<Trans>> = enum_map! { _ => vec![] };
        t1[NormalSent] = vec![Trans(1, 1.0)];
        t1[CounterZero] = vec![Trans(2, 1.0)];
        let mut t2: EnumMap<Event, Vec<Trans>> = enum_map! { _ => vec![] };
        t2[PaddingSent] = vec![Trans(0, 1.0)];
        lib.push(Gadget {
            name: "ctr-then-pad".into(),
            m: mk((1_000_000, 1.0, 0, 0.0), vec![
                st_map(t0, None, (Some(Counter::new_dist(Operation::Set, c(2.0))), None)),
                st_map(t1, None, (Some(Counter::new(Operation::Decrement)), None)),
                st_map(t2, Some(Action::SendPadding { bypass: false, replace: true, timeout: c(1.0), limit: None }), (None, None)),
            ]),
            kind: 'x',
            zero_dur: false,
        });
        let mut s0: EnumMap<Event, Vec<Trans>> = enum_map! { _ => vec![] };
        s0[TunnelRecv] = vec![Trans(crate::fam::SIG, 1.0)];
        s0[Signal] = vec![Trans(1, 1.0)];
        let mut s1: EnumMap<Event, Vec<Trans>> = enum_map! { _ => vec![] };
        s1[Signal] = vec![Trans(1, 1.0)];
        lib.push(Gadget { name: "sig-pad".into(), m: mk((1_000_000, 1.0, 0, 0.0), vec![st_map(s0, None, (None, None)), st_map(s1, Some(Action::SendPadding { bypass: true, replace: true, timeout: c(2.0), limit: Some(c(2.0)) }), (None, None))]), kind: 'x', zero_dur: false });
    }
    // randomised gadgets (probabilistic transitions, sampled timeouts / durations): the seed matters
    {
        use crate::fam::u;
        let half = |e: Event, to: usize| -> EnumMap<Event, Vec<Trans>> {
            let mut t: EnumMap<Event, Vec<Trans>> = enum_map! { _ => vec![] };
            t[e] = vec![Trans(to, 0.5)];
            t
        };
        let b = (1_000_000, 1.0, 1_000_000_000, 1.0);
        let mut w = half(PaddingSent, 1);
        w[NormalSent] = vec![Trans(1, 0.5), Trans(0, 0.25)];
        lib.push(Gadget { name: "qpad(U[0,4),p0.5)".into(), m: mk(b, vec![st_map(half(NormalSent, 1), None, (None, None)), st_map(w, Some(Action::SendPadding { bypass: true, replace: false, timeout: u(0.0, 4.0), limit: Some(u(1.0, 4.0)) }), (None, None))]), kind: 'q', zero_dur: false });
        let mut w = half(BlockingEnd, 1);
        w[TunnelRecv] = vec![Trans(0, 0.5)];
        lib.push(Gadget { name: "qblk(U[0,3),U[1,4),p0.5)".into(), m: mk(b, vec![st_map(half(NormalSent, 1), None, (None, None)), st_map(w, Some(Action::BlockOutgoing { bypass: false, replace: true, timeout: u(0.0, 3.0), duration: u(1.0, 4.0), limit: Some(u(1.0, 3.0)) }), (None, None))]), kind: 'q', zero_dur: false });
        let mut w = half(TimerEnd, 1);
        w[NormalSent] = vec![Trans(1, 0.5)];
        lib.push(Gadget { name: "qtmr(U[1,3),p0.5)".into(), m: mk(b, vec![st_map(half(TunnelRecv, 1), None, (None, None)), st_map(w, Some(Action::UpdateTimer { replace: false, duration: u(1.0, 3.0), limit: Some(u(1.0, 4.0)) }), (None, None))]), kind: 'q', zero_dur: false });
        let mut w = half(PaddingSent, 1);
        w[TunnelRecv] = vec![Trans(1, 0.5)];
        lib.push(Gadget { name: "qpadrecv(U[0,2),p0.5)".into(), m: mk(b, vec![st_map(half(TunnelRecv, 1), None, (None, None)), st_map(w, Some(Action::SendPadding { bypass: false, replace: true, timeout: u(0.0, 2.0), limit: Some(u(2.0, 5.0)) }), (None, None))]), kind: 'q', zero_dur: false });
    }
    let _ = NOBUDGET;
    lib
}

/// An independent reference for "no machines": what the client and server observe.
pub fn expected_no_machines(trace: &[Pkt], delay_ns: u64) -> Vec<(u64, bool, bool)> {
    // (time relative to the first base event, at client?, is TunnelSent?)
    // first base event: min over client sends t and server sends t - delay (may be "negative": shift)
    let mut v: Vec<(i128, bool, bool)> = vec![];
    for (t, s) in trace {
        let t = *t as i128;
        let d = delay_ns as i128;
        if *s {
            v.push((t, true, true));
            v.push((t + d, false, false));
        } else {
            v.push((t - d, false, true));
            v.push((t, true, false));
        }
    }
    let first = trace.iter().map(|(t, s)| if *s { *t as i128 } else { *t as i128 - delay_ns as i128 }).min().unwrap_or(0);
    let mut out: Vec<(u64, bool, bool)> = v.into_iter().map(|(t, c, s)| ((t - first) as u64, c, s)).collect();
    out.sort();
    out
}
