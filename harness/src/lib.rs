//! Model-checking harness for the maybenot properties (see /verif/DESIGN.md).
pub mod alloc;
pub mod checks;
pub mod clock;
pub mod explore;
pub mod fam;
pub mod monitors;
pub mod rng;
pub mod sim;
pub mod simrun;
pub mod spec;
pub mod supervise;
pub mod types;
