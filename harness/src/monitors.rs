//! Contract monitors for the simulator properties C15-C18 (DESIGN section 5).
//! They run over one side's replayed stream `(event, actions returned by that
//! side's framework at this event)`. Monitors are nondeterministic acceptors
//! for same-instant coincidences: an entry superseded at exactly its deadline
//! may still be matched until time advances; obligations are discharged when
//! simulated time moves past the instant.
use crate::sim::Ev;
use crate::types::Act;
use maybenot::event::TriggerEvent;

#[derive(Clone, Debug)]
pub struct Viol {
    /// stable signature (used for known-findings matching)
    pub sig: String,
    pub msg: String,
    /// index of the side event at which it was detected
    pub at: usize,
}

const US: u64 = 1000; // Act durations are microseconds, Ev times nanoseconds

#[derive(Clone, Debug, PartialEq)]
pub struct Pend {
    pub pad: bool,
    pub due: u64,
    pub dur: u64,
    pub bypass: bool,
    pub replace: bool,
    pub issued: u64,
}

/// What fired at each PaddingSent / BlockingBegin event (index into the side stream).
pub type Fired = Vec<Option<Pend>>;

/// C17 — action timers. Also produces, for C16, which action each firing belongs to.
pub fn c17(stream: &[(Ev, Vec<Act>)], n_machines: usize) -> (Fired, Option<Viol>, u64) {
    let (f, v, n, _) = c17_ext(stream, n_machines);
    (f, v, n)
}
/// As `c17`, plus for every event whether a BlockOutgoing action with bypass=true is pending (issued, not yet fired) when the event is reported.
pub fn c17_ext(stream: &[(Ev, Vec<Act>)], n_machines: usize) -> (Fired, Option<Viol>, u64, Vec<bool>) {
    let (a, b, c, d, _) = c17_full(stream, n_machines);
    (a, b, c, d)
}
/// As `c17_ext`, plus for every event whether a zero-duration BlockOutgoing is pending and due at that very instant.
pub fn c17_full(stream: &[(Ev, Vec<Act>)], n_machines: usize) -> (Fired, Option<Viol>, u64, Vec<bool>, Vec<bool>) {
    let mut pend: Vec<Option<Pend>> = vec![None; n_machines];
    let mut grace: Vec<Vec<Pend>> = vec![vec![]; n_machines];
    let mut fired: Fired = vec![None; stream.len()];
    let mut firings = 0u64;
    let mut last = 0u64;
    let mut pbb: Vec<bool> = vec![false; stream.len()];
    let mut zdn: Vec<bool> = vec![false; stream.len()];
    // a zero-duration BlockOutgoing was issued on this side: its BlockingEnd is reported before its BlockingBegin
    // (known finding of C16), so a machine reacting to that BlockingEnd re-issues an action "before" the begin
    let mut zero_dur_block = false;
    for (i, (e, acts)) in stream.iter().enumerate() {
        let now = e.t;
        pbb[i] = pend.iter().flatten().any(|p| !p.pad && p.bypass && p.due > now);
        zdn[i] = pend.iter().flatten().any(|p| !p.pad && p.dur == 0 && p.due == now);
        if now > last {
            for m in 0..n_machines {
                grace[m].clear();
                if let Some(p) = &pend[m] {
                    if p.due < now {
                        return (fired, Some(Viol { sig: "C17:missed-firing".into(), msg: format!("machine {m}: action issued at {}ns due at {}ns ({}) was not superseded but had not fired when time moved on to {}ns", p.issued, p.due, if p.pad { "SendPadding" } else { "BlockOutgoing" }, now), at: i }), firings, pbb, zdn);
                    }
                }
            }
            last = now;
        }
        match &e.event {
            TriggerEvent::PaddingSent { machine } | TriggerEvent::BlockingBegin { machine } => {
                let m = machine.into_raw();
                let pad = matches!(e.event, TriggerEvent::PaddingSent { .. });
                if m >= n_machines {
                    return (fired, Some(Viol { sig: "C17:unknown-machine".into(), msg: format!("{:?} names machine {m} which does not exist on this side", e.event), at: i }), firings, pbb, zdn);
                }
                let direct = matches!(&pend[m], Some(p) if p.pad == pad && p.due == now);
                let p = if direct {
                    pend[m].take()
                } else if let Some(ix) = grace[m].iter().position(|p| p.pad == pad && p.due == now) {
                    Some(grace[m].remove(ix))
                } else {
                    None
                };
                match p {
                    None => {
                        let why = match &pend[m] {
                            Some(p) => format!("the most recent action for the machine is {} issued at {}ns due at {}ns", if p.pad { "SendPadding" } else { "BlockOutgoing" }, p.issued, p.due),
                            None => "no action is pending for the machine (never issued, already fired, cancelled or superseded)".to_string(),
                        };
                        return (fired, Some(Viol { sig: format!("C17:spurious-{}{}", if pad { "PaddingSent" } else { "BlockingBegin" }, if zero_dur_block && !pad { "+zero-duration-block" } else { "" }), msg: format!("{} for machine {m} reported at {}ns, but {why}", if pad { "PaddingSent" } else { "BlockingBegin" }, now), at: i }), firings, pbb, zdn);
                    }
                    Some(p) => {
                        firings += 1;
                        fired[i] = Some(p);
                    }
                }
            }
            _ => {}
        }
        for a in acts {
            match a {
                Act::Pad { m, timeout, bypass, replace } => {
                    supersede(&mut pend[*m], &mut grace[*m], now);
                    pend[*m] = Some(Pend { pad: true, due: now + timeout * US, dur: 0, bypass: *bypass, replace: *replace, issued: now });
                }
                Act::Block { m, timeout, duration, bypass, replace } => {
                    if *duration == 0 {
                        zero_dur_block = true;
                    }
                    supersede(&mut pend[*m], &mut grace[*m], now);
                    pend[*m] = Some(Pend { pad: false, due: now + timeout * US, dur: duration * US, bypass: *bypass, replace: *replace, issued: now });
                }
                Act::Cancel { m, timer } => {
                    if *timer != 1 {
                        supersede(&mut pend[*m], &mut grace[*m], now);
                    }
                }
                Act::Timer { .. } => {}
            }
        }
    }
    (fired, None, firings, pbb, zdn)
}
/// A newer action or a cancel supersedes the pending one, which then never fires: a firing *reported after*
/// the superseding event (in trace order) is a violation, also when both carry the same time stamp. (The
/// scheduler fires and reports an action without letting other events of that instant in between; the
/// same-instant tolerance of section 5 was tried and never needed on the unchanged tree - see DESIGN 10.2.)
fn supersede(p: &mut Option<Pend>, _grace: &mut Vec<Pend>, _now: u64) {
    let _ = p.take();
}

/// C18 — internal timers.
pub fn c18(stream: &[(Ev, Vec<Act>)], n_machines: usize) -> (Option<Viol>, u64, u64) {
    let mut timer: Vec<Option<u64>> = vec![None; n_machines];
    let mut tgrace: Vec<Vec<u64>> = vec![vec![]; n_machines];
    // strict by default: a TimerEnd reported after the event that cancelled / superseded its timer (in trace
    // order, also at the same time stamp) is a violation; the tolerance was never needed on the unchanged tree
    let strict = std::env::var("VERIF_C18_LENIENT").is_err();
    let mut must_begin: Vec<u32> = vec![0; n_machines];
    let mut may_begin: Vec<u32> = vec![0; n_machines];
    let mut zero_dur_issued = false;
    let (mut begins, mut ends) = (0u64, 0u64);
    let mut last = 0u64;
    let tag = |z: bool| if z { "+zero-duration-timer" } else { "" };
    for (i, (e, acts)) in stream.iter().enumerate() {
        let now = e.t;
        if now > last {
            for m in 0..n_machines {
                tgrace[m].clear();
                may_begin[m] = 0;
                if let Some(x) = timer[m] {
                    if x < now {
                        return (Some(Viol { sig: format!("C18:missed-TimerEnd{}", tag(zero_dur_issued)), msg: format!("machine {m}: internal timer expiring at {x}ns was neither cancelled nor superseded, but no TimerEnd was reported before time moved on to {now}ns"), at: i }), begins, ends);
                    }
                }
                if must_begin[m] > 0 {
                    return (Some(Viol { sig: format!("C18:missing-TimerBegin{}", tag(zero_dur_issued)), msg: format!("machine {m}: an UpdateTimer action set the timer at {last}ns but no TimerBegin was reported at that instant"), at: i }), begins, ends);
                }
            }
            last = now;
        }
        match &e.event {
            TriggerEvent::TimerBegin { machine } => {
                let m = machine.into_raw();
                if m >= n_machines {
                    return (Some(Viol { sig: "C18:unknown-machine".into(), msg: format!("TimerBegin for machine {m} which does not exist"), at: i }), begins, ends);
                }
                begins += 1;
                if must_begin[m] > 0 {
                    must_begin[m] -= 1;
                } else if may_begin[m] > 0 {
                    may_begin[m] -= 1;
                } else {
                    return (Some(Viol { sig: "C18:spurious-TimerBegin".into(), msg: format!("TimerBegin for machine {m} at {now}ns does not follow an UpdateTimer action returned for that machine at that instant"), at: i }), begins, ends);
                }
            }
            TriggerEvent::TimerEnd { machine } => {
                let m = machine.into_raw();
                if m >= n_machines {
                    return (Some(Viol { sig: "C18:unknown-machine".into(), msg: format!("TimerEnd for machine {m} which does not exist"), at: i }), begins, ends);
                }
                ends += 1;
                if timer[m] == Some(now) {
                    timer[m] = None;
                } else if let Some(ix) = tgrace[m].iter().position(|x| *x == now) {
                    tgrace[m].remove(ix);
                } else {
                    return (Some(Viol { sig: format!("C18:spurious-TimerEnd{}", tag(zero_dur_issued)), msg: format!("TimerEnd for machine {m} at {now}ns, but its timer is {:?} (expiry per the UpdateTimer contract)", timer[m]), at: i }), begins, ends);
                }
            }
            _ => {}
        }
        for a in acts {
            match a {
                Act::Timer { m, duration, replace } => {
                    let new = now + duration * US;
                    if *duration == 0 {
                        zero_dur_issued = true;
                    }
                    let sets = *replace || timer[*m].is_none() || new > timer[*m].unwrap();
                    if sets {
                        if let Some(x) = timer[*m] {
                            if x == now && !strict {
                                tgrace[*m].push(x);
                            }
                        }
                        timer[*m] = Some(new);
                        must_begin[*m] += 1;
                    } else {
                        may_begin[*m] += 1;
                    }
                }
                Act::Cancel { m, timer: tk } => {
                    if *tk != 0 {
                        if let Some(x) = timer[*m].take() {
                            if x == now && !strict {
                                tgrace[*m].push(x);
                            }
                        }
                    }
                }
                _ => {}
            }
        }
    }
    (None, begins, ends)
}

#[derive(Default, Clone, Debug)]
pub struct C16Stats {
    pub begins: u64,
    pub ends: u64,
    pub sent_during_block: u64,
    pub extended: u64,
    pub replaced: u64,
}

/// C16 — blocking honoured. `fired` comes from the C17 tracker (which action each firing belongs to).
pub fn c16(stream: &[(Ev, Vec<Act>)], fired: &Fired, pending_bypass_block: &[bool], zero_block_due_now: &[bool]) -> (Option<Viol>, C16Stats) {
    let mut st = C16Stats::default();
    let mut active = false;
    let mut until = 0u64;
    let mut allow = false;
    // the bypass flag of the most recent action that started / updated the blocking ("latest wins")
    let mut latest_allow = false;
    let mut credits: i64 = 0;
    let mut zero_dur_fired = false;
    let mut last = 0u64;
    // a packet without bypass left at exactly the expiry instant while no BlockingEnd had been reported yet: fine if
    // the blocking then ends at this instant, contradictory if it is extended instead (either it had ended, and the
    // end must be reported, or it had not, and the packet must not leave)
    let mut left_at_expiry: Option<u64> = None;
    let ztag = |z: bool| if z { "+zero-duration-block" } else { "" };
    for (i, (e, _acts)) in stream.iter().enumerate() {
        let now = e.t;
        if now > last {
            if active && until < now {
                return (Some(Viol { sig: format!("C16:missing-BlockingEnd{}", ztag(zero_dur_fired)), msg: format!("blocking begun earlier expires at {until}ns but no BlockingEnd was reported before time moved on to {now}ns"), at: i }), st);
            }
            last = now;
        }
        match &e.event {
            TriggerEvent::BlockingBegin { .. } => {
                let Some(p) = &fired[i] else {
                    // C17's business; without knowing the action the window cannot be judged
                    return (None, st);
                };
                st.begins += 1;
                if p.dur == 0 {
                    zero_dur_fired = true;
                }
                let nu = now + p.dur;
                if !active {
                    active = true;
                    until = nu;
                    allow = p.bypass;
                    latest_allow = p.bypass;
                } else if p.replace || nu > until {
                    if left_at_expiry == Some(now) && until == now {
                        return (Some(Viol { sig: "C16:packet-left-at-expiry-of-a-block-that-was-then-extended".into(), msg: format!("a packet without bypass left at {now}ns, the expiry of the active blocking, no BlockingEnd was reported, and a BlockingBegin of the same instant then continued that blocking until {nu}ns: either the blocking had ended (then its end must be reported) or it had not (then the packet must not leave)"), at: i }), st);
                    }
                    latest_allow = p.bypass;
                    if p.replace {
                        st.replaced += 1;
                        allow = p.bypass;
                    } else {
                        st.extended += 1;
                        allow = allow && p.bypass;
                    }
                    until = nu;
                }
            }
            TriggerEvent::BlockingEnd => {
                st.ends += 1;
                if !active {
                    // a zero-duration block whose end is reported before its begin: look ahead at this instant
                    let z = stream[i + 1..].iter().take_while(|(x, _)| x.t == now).enumerate().any(|(k, (x, _))| matches!(x.event, TriggerEvent::BlockingBegin { .. }) && fired[i + 1 + k].as_ref().map(|p| p.dur == 0).unwrap_or(false));
                    return (Some(Viol { sig: format!("C16:BlockingEnd-while-not-blocking{}", ztag(zero_dur_fired || z || zero_block_due_now.get(i).copied().unwrap_or(false))), msg: format!("BlockingEnd reported at {now}ns although no blocking is active (no BlockingBegin since the last end)"), at: i }), st);
                }
                if now != until {
                    // a zero-duration replacing block fired at this instant whose BlockingBegin is still to be reported
                    let z = stream[i + 1..].iter().take_while(|(x, _)| x.t == now).enumerate().any(|(k, (x, _))| matches!(x.event, TriggerEvent::BlockingBegin { .. }) && fired[i + 1 + k].as_ref().map(|p| p.dur == 0).unwrap_or(false));
                    return (Some(Viol { sig: format!("C16:BlockingEnd-at-wrong-time{}", ztag(zero_dur_fired || z || zero_block_due_now.get(i).copied().unwrap_or(false))), msg: format!("BlockingEnd reported at {now}ns, but the blocking expires at {until}ns (duration of the starting action, replaced / extended per the contract)"), at: i }), st);
                }
                active = false;
            }
            TriggerEvent::PaddingSent { .. } => {
                if let Some(p) = &fired[i] {
                    if p.bypass {
                        credits += 1;
                    }
                }
            }
            TriggerEvent::TunnelSent => {
                if e.bypass {
                    if credits <= 0 {
                        return (Some(Viol { sig: "C16:bypass-flag-not-earned".into(), msg: format!("TunnelSent at {now}ns carries the bypass flag, but no padding action with the bypass flag accounts for it"), at: i }), st);
                    }
                    credits -= 1;
                }
                if active && now == until && !e.bypass {
                    left_at_expiry = Some(now);
                }
                if active && now < until {
                    st.sent_during_block += 1;
                    if !e.bypass {
                        return (Some(Viol { sig: "C16:leak-during-blocking".into(), msg: format!("a {} packet left at {now}ns while blocking is active until {until}ns, without bypass", if e.pad { "padding" } else { "normal" }), at: i }), st);
                    }
                    if !allow {
                        // the simulator changes the blocking state when an action fires, the BlockingBegin is reported
                        // at the same instant but possibly after this packet: a bypassable update fired at this instant
                        let pending_update = stream[i + 1..].iter().take_while(|(x, _)| x.t == now).enumerate().any(|(k, (x, _))| {
                            matches!(x.event, TriggerEvent::BlockingBegin { .. }) && fired[i + 1 + k].as_ref().map(|p| p.bypass && (p.replace || now + p.dur > until)).unwrap_or(false)
                        });
                        // same-instant rule: a *replacing* bypassable block fired at this instant starts the blocking anew
                        let pending_replace = stream[i + 1..].iter().take_while(|(x, _)| x.t == now).enumerate().any(|(k, (x, _))| {
                            matches!(x.event, TriggerEvent::BlockingBegin { .. }) && fired[i + 1 + k].as_ref().map(|p| p.bypass && p.replace).unwrap_or(false)
                        });
                        if pending_replace {
                            continue;
                        }
                        let latest_allow = latest_allow || pending_update;
                        return (Some(Viol { sig: format!("C16:bypass-through-non-bypassable-blocking{}", if latest_allow { "+latest-update-allows-bypass" } else if pending_bypass_block.get(i).copied().unwrap_or(false) { "+pending-bypassable-block-applied-early" } else { "" }), msg: format!("a bypass {} packet left at {now}ns while blocking is active until {until}ns, but not every action that started or updated this blocking allowed bypass", if e.pad { "padding" } else { "normal (replacing padding)" }), at: i }), st);
                    }
                }
            }
            _ => {}
        }
    }
    (None, st)
}

/// C15 — conservation and causality over the whole (two-sided) trace.
pub fn c15(evs: &[Ev], delay_ns: u64, client_base: usize, server_base: usize, ended_by_itself: bool) -> Option<Viol> {
    for (i, w) in evs.windows(2).enumerate() {
        if w[0].t > w[1].t {
            return Some(Viol { sig: "C15:unordered".into(), msg: format!("returned trace is not ordered by time at index {i}: {}ns then {}ns", w[0].t, w[1].t), at: i });
        }
    }
    for side in [true, false] {
        for pad in [false, true] {
            let sent_ix: Vec<usize> = evs.iter().enumerate().filter(|(_, e)| e.client == side && e.event == TriggerEvent::TunnelSent && e.pad == pad).map(|(i, _)| i).collect();
            let recv_ix: Vec<usize> = evs.iter().enumerate().filter(|(_, e)| e.client != side && e.event == TriggerEvent::TunnelRecv && e.pad == pad).map(|(i, _)| i).collect();
            let sent: Vec<u64> = sent_ix.iter().map(|i| evs[*i].t).collect();
            let recv: Vec<u64> = recv_ix.iter().map(|i| evs[*i].t).collect();
            let who = if side { "client" } else { "server" };
            let kind = if pad { "padding" } else { "normal" };
            if recv.len() > sent.len() {
                return Some(Viol { sig: "C15:more-received-than-sent".into(), msg: format!("{} {kind} packets received from the {who}, but it sent only {}", recv.len(), sent.len()), at: 0 });
            }
            // both lists are time ordered: matching the k-th received with the k-th sent is exact
            for (k, r) in recv.iter().enumerate() {
                if sent[k] + delay_ns > *r {
                    return Some(Viol { sig: "C15:causality".into(), msg: format!("{kind} packet #{k} from the {who}: received at {r}ns, sent at {}ns, network delay {delay_ns}ns", sent[k]), at: 0 });
                }
                // "an earlier tunnel-sent packet": with equal time stamps (network delay 0) the order in the returned trace decides
                if sent_ix[k] > recv_ix[k] {
                    return Some(Viol { sig: "C15:received-before-sent-in-trace-order".into(), msg: format!("{kind} packet #{k} from the {who}: its TunnelRecv (trace index {}) precedes its TunnelSent (index {}) in the returned trace, both at {r}ns", recv_ix[k], sent_ix[k]), at: 0 });
                }
            }
            if !pad {
                let share = if side { client_base } else { server_base };
                if sent.len() > share {
                    return Some(Viol { sig: "C15:normal-packet-created".into(), msg: format!("the {who} sent {} normal packets, the input trace has only {share} for it", sent.len()), at: 0 });
                }
                if ended_by_itself && sent.len() != share {
                    return Some(Viol { sig: "C15:normal-packet-lost".into(), msg: format!("the run ended by itself, the {who} sent {} of its {share} normal packets", sent.len()), at: 0 });
                }
            }
        }
    }
    None
}
