//! Counting allocator: per-thread live / peak heap bytes (no shared counters,
//! so the explorers are not slowed down by contention). Installed as the global
//! allocator of the `vcheck` binary.
use std::alloc::{GlobalAlloc, Layout, System};
use std::cell::Cell;

thread_local! {
    static LIVE: Cell<isize> = const { Cell::new(0) };
    static PEAK: Cell<isize> = const { Cell::new(0) };
}
pub struct Counting;
unsafe impl GlobalAlloc for Counting {
    unsafe fn alloc(&self, l: Layout) -> *mut u8 {
        let p = System.alloc(l);
        if !p.is_null() {
            add(l.size() as isize);
        }
        p
    }
    unsafe fn alloc_zeroed(&self, l: Layout) -> *mut u8 {
        let p = System.alloc_zeroed(l);
        if !p.is_null() {
            add(l.size() as isize);
        }
        p
    }
    unsafe fn dealloc(&self, p: *mut u8, l: Layout) {
        System.dealloc(p, l);
        add(-(l.size() as isize));
    }
    unsafe fn realloc(&self, p: *mut u8, l: Layout, n: usize) -> *mut u8 {
        let q = System.realloc(p, l, n);
        if !q.is_null() {
            add(n as isize - l.size() as isize);
        }
        q
    }
}
#[inline]
fn add(d: isize) {
    let _ = LIVE.try_with(|c| {
        let v = c.get() + d;
        c.set(v);
        if d > 0 {
            let _ = PEAK.try_with(|p| {
                if v > p.get() {
                    p.set(v);
                }
            });
        }
    });
}
/// live bytes allocated (net) by this thread
pub fn live() -> isize {
    LIVE.with(|c| c.get())
}
/// reset the peak to the current live value; returns the live value
pub fn reset_peak() -> isize {
    let l = live();
    PEAK.with(|p| p.set(l));
    l
}
/// peak of live bytes since the last `reset_peak`, relative to `base`
pub fn peak_since(base: isize) -> isize {
    PEAK.with(|p| p.get()) - base
}
