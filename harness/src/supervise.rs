//! Supervisor / worker split (DESIGN 1.5).
//!
//! Every check runs its exploration in a child process. The parent owns the
//! watchdog, the verdict, the replay files and the evidence file. Workers leave
//! breadcrumbs in a shared memory-mapped file (which unit of work each thread is
//! executing, plus a heartbeat), so that an abort (stack overflow, allocation
//! failure) or a hang can be attributed to a unit of work, which is then re-run
//! alone in "fine" mode, where the would-be replay file is written *before*
//! every execution.
use serde_json::{json, Value};
use std::io::Write;
use std::path::{Path, PathBuf};
use std::process::{Command, Stdio};
use std::time::{Duration, Instant};

pub const SLOTS: usize = 64;

/// Shared breadcrumb page: [heartbeat][slot 0..SLOTS]. A slot holds the index
/// of the unit of work a thread is executing (u64::MAX = idle).
pub struct Crumbs {
    ptr: *mut u64,
}
unsafe impl Sync for Crumbs {}
unsafe impl Send for Crumbs {}
impl Crumbs {
    pub fn open(path: &Path, create: bool) -> std::io::Result<Crumbs> {
        use std::os::unix::io::AsRawFd;
        let f = std::fs::OpenOptions::new().read(true).write(true).create(create).open(path)?;
        let len = 8 * (SLOTS + 1);
        if create {
            f.set_len(len as u64)?;
        }
        let p = unsafe { libc::mmap(std::ptr::null_mut(), len, libc::PROT_READ | libc::PROT_WRITE, libc::MAP_SHARED, f.as_raw_fd(), 0) };
        if p == libc::MAP_FAILED {
            return Err(std::io::Error::last_os_error());
        }
        let c = Crumbs { ptr: p as *mut u64 };
        if create {
            for i in 0..SLOTS {
                c.set(i, u64::MAX);
            }
        }
        Ok(c)
    }
    pub fn set(&self, slot: usize, v: u64) {
        unsafe {
            std::ptr::write_volatile(self.ptr.add(1 + slot % SLOTS), v);
            let hb = std::ptr::read_volatile(self.ptr);
            std::ptr::write_volatile(self.ptr, hb.wrapping_add(1));
        }
    }
    pub fn beat(&self) {
        unsafe {
            let hb = std::ptr::read_volatile(self.ptr);
            std::ptr::write_volatile(self.ptr, hb.wrapping_add(1));
        }
    }
    pub fn heartbeat(&self) -> u64 {
        unsafe { std::ptr::read_volatile(self.ptr) }
    }
    pub fn active(&self) -> Vec<u64> {
        let mut v: Vec<u64> = (0..SLOTS).map(|i| unsafe { std::ptr::read_volatile(self.ptr.add(1 + i)) }).filter(|x| *x != u64::MAX).collect();
        v.sort();
        v.dedup();
        v
    }
}

/// Fine-mode crumb: the would-be replay JSON, rewritten before every execution.
pub struct FineCrumb {
    pub path: PathBuf,
}
impl FineCrumb {
    pub fn write(&self, v: &Value) {
        if let Ok(mut f) = std::fs::File::create(&self.path) {
            let _ = f.write_all(v.to_string().as_bytes());
        }
    }
}
pub fn fine_crumb_from_env() -> Option<FineCrumb> {
    std::env::var("VERIF_FINE_CRUMB").ok().map(|p| FineCrumb { path: PathBuf::from(p) })
}
pub fn crumbs_from_env() -> Option<Crumbs> {
    std::env::var("VERIF_CRUMBS").ok().and_then(|p| Crumbs::open(Path::new(&p), false).ok())
}
static CRUMBS: std::sync::OnceLock<Option<Crumbs>> = std::sync::OnceLock::new();
static FINE: std::sync::OnceLock<Option<FineCrumb>> = std::sync::OnceLock::new();
pub fn global_crumbs() -> Option<&'static Crumbs> {
    CRUMBS.get_or_init(crumbs_from_env).as_ref()
}
pub fn global_fine() -> Option<&'static FineCrumb> {
    FINE.get_or_init(fine_crumb_from_env).as_ref()
}
pub fn beat() {
    if let Some(c) = global_crumbs() {
        c.beat();
    }
}
pub fn only_unit_from_env() -> Option<u64> {
    std::env::var("VERIF_ONLY_UNIT").ok().and_then(|s| s.parse().ok())
}

pub fn verif_dir() -> PathBuf {
    if let Ok(d) = std::env::var("VERIF_DIR") {
        return PathBuf::from(d);
    }
    // the binary lives in <verif>/harness/target/release/vcheck
    let exe = std::env::current_exe().unwrap_or_default();
    let mut p = exe.clone();
    for _ in 0..4 {
        p.pop();
    }
    if p.join("MANIFEST.json").exists() || p.join("DESIGN.md").exists() {
        return p;
    }
    PathBuf::from("/verif")
}

pub struct ChildOutcome {
    pub status: Option<i32>,
    pub signal: Option<i32>,
    pub hung: bool,
    pub wall_timeout: bool,
}

/// Run a worker child. `quiet_s`: kill if the heartbeat does not move for this long.
pub fn run_child(args: &[String], envs: &[(String, String)], crumbs: &Crumbs, quiet_s: u64, wall_s: u64) -> ChildOutcome {
    use std::os::unix::process::ExitStatusExt;
    let exe = std::env::current_exe().expect("current_exe");
    let mut cmd = Command::new(exe);
    cmd.args(args).stdin(Stdio::null());
    for (k, v) in envs {
        cmd.env(k, v);
    }
    let mut child = cmd.spawn().expect("cannot spawn worker");
    let t0 = Instant::now();
    let mut last_hb = crumbs.heartbeat();
    let mut last_change = Instant::now();
    loop {
        match child.try_wait() {
            Ok(Some(st)) => {
                return ChildOutcome { status: st.code(), signal: st.signal(), hung: false, wall_timeout: false };
            }
            Ok(None) => {}
            Err(_) => {}
        }
        std::thread::sleep(Duration::from_millis(50));
        let hb = crumbs.heartbeat();
        if hb != last_hb {
            last_hb = hb;
            last_change = Instant::now();
        }
        let hung = last_change.elapsed().as_secs() >= quiet_s;
        let wall = t0.elapsed().as_secs() >= wall_s;
        if hung || wall {
            let _ = child.kill();
            let _ = child.wait();
            return ChildOutcome { status: None, signal: None, hung, wall_timeout: wall && !hung };
        }
    }
}

/// One violation as reported by a worker.
pub struct Reported {
    pub signature: String,
    pub summary: String,
    pub replay: Value,
}

pub struct Known {
    pub property: String,
    pub matcher: String,
    pub text: String,
}
/// known_findings.txt: lines `finding: property=<id> match=<substring> :: <what fails>`
/// (suppress, printed as KNOWN-FINDING) and `fixed: property=<id> <commit> <what failed>`
/// (suppress nothing).
pub fn load_known(dir: &Path) -> Vec<Known> {
    let mut v = vec![];
    if let Ok(s) = std::fs::read_to_string(dir.join("known_findings.txt")) {
        for line in s.lines() {
            let line = line.trim();
            if let Some(rest) = line.strip_prefix("finding:") {
                let (head, text) = rest.split_once("::").unwrap_or((rest, ""));
                let mut prop = String::new();
                let mut matcher = String::new();
                if let Some(i) = head.find("property=") {
                    prop = head[i + 9..].split_whitespace().next().unwrap_or("").to_string();
                }
                if let Some(i) = head.find("match=") {
                    matcher = head[i + 6..].trim().to_string();
                }
                if !prop.is_empty() && !matcher.is_empty() {
                    v.push(Known { property: prop, matcher, text: text.trim().to_string() });
                }
            }
        }
    }
    v
}

pub struct Verdict {
    pub exit: i32,
    pub unknown: usize,
    pub known: usize,
}

/// Turn worker-reported violations into VIOLATION / KNOWN-FINDING lines and replay files.
pub fn judge(property: &str, reported: &[Reported]) -> Verdict {
    let dir = verif_dir();
    let known = load_known(&dir);
    let rdir = dir.join("replays");
    let _ = std::fs::create_dir_all(&rdir);
    let mut unknown = 0;
    let mut nknown = 0;
    let mut printed_known: std::collections::HashSet<String> = Default::default();
    for (i, r) in reported.iter().enumerate() {
        if let Some(k) = known.iter().find(|k| k.property == property && r.signature.contains(&k.matcher)) {
            nknown += 1;
            if printed_known.insert(k.matcher.clone()) {
                println!("KNOWN-FINDING: property={} {} [{}]", property, k.text, k.matcher);
            }
            continue;
        }
        unknown += 1;
        let path = rdir.join(format!("{}-{}.json", property, i));
        let mut v = r.replay.clone();
        if let Some(o) = v.as_object_mut() {
            o.insert("signature".into(), json!(r.signature));
            o.insert("summary".into(), json!(r.summary));
        }
        let _ = std::fs::write(&path, serde_json::to_string_pretty(&v).unwrap_or_default());
        println!("  {}", r.summary.lines().next().unwrap_or(""));
        println!("VIOLATION property={} replay={}", property, path.display());
    }
    Verdict { exit: if unknown > 0 { 1 } else { 0 }, unknown, known: nknown }
}

pub fn write_evidence(property: &str, tier: &str, seed: u64, level: &str, coverage: Value, assumptions: Vec<String>, wall_s: f64, violations: usize) {
    // runs against a deliberately broken tree (self-test, seeded changes) keep their evidence out of /verif/evidence
    let dir = match std::env::var("VERIF_EVIDENCE_DIR") {
        Ok(d) => PathBuf::from(d),
        Err(_) => verif_dir().join("evidence"),
    };
    let _ = std::fs::create_dir_all(&dir);
    let v = json!({
        "property_id": property,
        "tier": tier,
        "seed": seed,
        "level": level,
        "coverage": coverage,
        "assumptions": assumptions,
        "wall_s": wall_s,
        "violations": violations,
    });
    let _ = std::fs::write(dir.join(format!("{}.json", property)), serde_json::to_string_pretty(&v).unwrap());
}
