//! Shared plain data: actions in a hashable form, event text codec, machine
//! set wrapper, configurations.
use crate::clock::VT;
use crate::rng::ChoiceRng;
use maybenot::action::{Timer, TriggerAction};
use maybenot::event::TriggerEvent;
use maybenot::{Framework, Machine, MachineId};
use std::sync::Arc;

/// A returned action, with durations in microseconds.
#[derive(Clone, Debug, PartialEq, Eq, Hash)]
pub enum Act {
    Cancel { m: usize, timer: u8 },
    Pad { m: usize, timeout: u64, bypass: bool, replace: bool },
    Block { m: usize, timeout: u64, duration: u64, bypass: bool, replace: bool },
    Timer { m: usize, duration: u64, replace: bool },
}
impl Act {
    pub fn machine(&self) -> usize {
        match self {
            Act::Cancel { m, .. } | Act::Pad { m, .. } | Act::Block { m, .. } | Act::Timer { m, .. } => *m,
        }
    }
    pub fn with_machine(&self, nm: usize) -> Act {
        let mut a = self.clone();
        match &mut a {
            Act::Cancel { m, .. } | Act::Pad { m, .. } | Act::Block { m, .. } | Act::Timer { m, .. } => *m = nm,
        }
        a
    }
}
pub fn timer_code(t: Timer) -> u8 {
    match t {
        Timer::Action => 0,
        Timer::Internal => 1,
        Timer::All => 2,
    }
}
pub fn conv(a: &TriggerAction<VT>) -> Act {
    match a {
        TriggerAction::Cancel { machine, timer } => Act::Cancel { m: machine.into_raw(), timer: timer_code(*timer) },
        TriggerAction::SendPadding { timeout, bypass, replace, machine } => {
            Act::Pad { m: machine.into_raw(), timeout: timeout.0, bypass: *bypass, replace: *replace }
        }
        TriggerAction::BlockOutgoing { timeout, duration, bypass, replace, machine } => Act::Block {
            m: machine.into_raw(),
            timeout: timeout.0,
            duration: duration.0,
            bypass: *bypass,
            replace: *replace,
        },
        TriggerAction::UpdateTimer { duration, replace, machine } => {
            Act::Timer { m: machine.into_raw(), duration: duration.0, replace: *replace }
        }
    }
}
pub fn conv_std(a: &TriggerAction<std::time::Instant>) -> Act {
    let us = |d: &std::time::Duration| d.as_micros() as u64;
    match a {
        TriggerAction::Cancel { machine, timer } => Act::Cancel { m: machine.into_raw(), timer: timer_code(*timer) },
        TriggerAction::SendPadding { timeout, bypass, replace, machine } => {
            Act::Pad { m: machine.into_raw(), timeout: us(timeout), bypass: *bypass, replace: *replace }
        }
        TriggerAction::BlockOutgoing { timeout, duration, bypass, replace, machine } => Act::Block {
            m: machine.into_raw(),
            timeout: us(timeout),
            duration: us(duration),
            bypass: *bypass,
            replace: *replace,
        },
        TriggerAction::UpdateTimer { duration, replace, machine } => {
            Act::Timer { m: machine.into_raw(), duration: us(duration), replace: *replace }
        }
    }
}

/// Text form of a trigger event: `NormalSent`, `PaddingSent:1`, ...
pub fn ev_to_string(e: &TriggerEvent) -> String {
    match e {
        TriggerEvent::NormalRecv => "NormalRecv".into(),
        TriggerEvent::PaddingRecv => "PaddingRecv".into(),
        TriggerEvent::TunnelRecv => "TunnelRecv".into(),
        TriggerEvent::NormalSent => "NormalSent".into(),
        TriggerEvent::TunnelSent => "TunnelSent".into(),
        TriggerEvent::BlockingEnd => "BlockingEnd".into(),
        TriggerEvent::PaddingSent { machine } => format!("PaddingSent:{}", machine.into_raw()),
        TriggerEvent::BlockingBegin { machine } => format!("BlockingBegin:{}", machine.into_raw()),
        TriggerEvent::TimerBegin { machine } => format!("TimerBegin:{}", machine.into_raw()),
        TriggerEvent::TimerEnd { machine } => format!("TimerEnd:{}", machine.into_raw()),
    }
}
pub fn ev_from_string(s: &str) -> Option<TriggerEvent> {
    let (name, id) = match s.split_once(':') {
        Some((n, i)) => (n, Some(MachineId::from_raw(i.parse().ok()?))),
        None => (s, None),
    };
    Some(match (name, id) {
        ("NormalRecv", None) => TriggerEvent::NormalRecv,
        ("PaddingRecv", None) => TriggerEvent::PaddingRecv,
        ("TunnelRecv", None) => TriggerEvent::TunnelRecv,
        ("NormalSent", None) => TriggerEvent::NormalSent,
        ("TunnelSent", None) => TriggerEvent::TunnelSent,
        ("BlockingEnd", None) => TriggerEvent::BlockingEnd,
        ("PaddingSent", Some(machine)) => TriggerEvent::PaddingSent { machine },
        ("BlockingBegin", Some(machine)) => TriggerEvent::BlockingBegin { machine },
        ("TimerBegin", Some(machine)) => TriggerEvent::TimerBegin { machine },
        ("TimerEnd", Some(machine)) => TriggerEvent::TimerEnd { machine },
        _ => return None,
    })
}
pub fn batch_to_strings(b: &[TriggerEvent]) -> Vec<String> {
    b.iter().map(ev_to_string).collect()
}

/// Machine set shared between all clones of a framework; prints nothing in
/// `Debug` so that the derived `Debug` of `Framework` is a pure *runtime* state.
#[derive(Clone)]
pub struct Ms(pub Arc<Vec<Machine>>);
impl AsRef<[Machine]> for Ms {
    fn as_ref(&self) -> &[Machine] {
        &self.0
    }
}
impl std::fmt::Debug for Ms {
    fn fmt(&self, f: &mut std::fmt::Formatter<'_>) -> std::fmt::Result {
        write!(f, "Ms")
    }
}
pub type Fw = Framework<Ms, ChoiceRng, VT>;

/// A closed configuration of the framework explorer.
#[derive(Clone)]
pub struct Cfg {
    pub label: String,
    pub machines: Vec<Machine>,
    pub pad_frac: f64,
    pub blk_frac: f64,
    pub start: u64,
}
impl Cfg {
    pub fn new(label: impl Into<String>, machines: Vec<Machine>, pad_frac: f64, blk_frac: f64) -> Self {
        Cfg { label: label.into(), machines, pad_frac, blk_frac, start: 1_000 }
    }
}

pub fn mid(i: usize) -> MachineId {
    MachineId::from_raw(i)
}

/// All single trigger events for a framework of `n` machines: 6 global ones and
/// the 4 addressed ones for ids 0..n-1, n (first foreign id) and usize::MAX.
pub fn all_single_events(n: usize, with_max: bool) -> Vec<TriggerEvent> {
    let mut v = vec![
        TriggerEvent::NormalRecv,
        TriggerEvent::PaddingRecv,
        TriggerEvent::TunnelRecv,
        TriggerEvent::NormalSent,
        TriggerEvent::TunnelSent,
        TriggerEvent::BlockingEnd,
    ];
    let mut ids: Vec<usize> = (0..=n).collect();
    if with_max {
        ids.push(usize::MAX);
    }
    for id in ids {
        v.push(TriggerEvent::PaddingSent { machine: mid(id) });
        v.push(TriggerEvent::BlockingBegin { machine: mid(id) });
        v.push(TriggerEvent::TimerBegin { machine: mid(id) });
        v.push(TriggerEvent::TimerEnd { machine: mid(id) });
    }
    v
}
