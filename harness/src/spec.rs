//! Executable reference semantics of `Framework::trigger_events` (DESIGN 1.3).
//!
//! A restatement of the documented behaviour (crate docs, module docs of
//! action / counter / constants and the property statements) over boring data.
//! It is never explored on its own: every explored transition is executed on
//! the real framework *and* here, from corresponding states with the same RNG
//! script, and the results are compared.
//!
//! Two things are delegated to the real public functions on purpose:
//! target selection (`State::sample_state`, decided by C06) and distribution
//! sampling (`Dist::sample`, decided by C13).
use crate::types::Act;
use maybenot::action::Action;
use maybenot::constants::{
    MAX_SAMPLED_BLOCK_DURATION, MAX_SAMPLED_TIMEOUT, MAX_SAMPLED_TIMER_DURATION, STATE_END, STATE_SIGNAL,
};
use maybenot::counter::{Counter, Operation};
use maybenot::event::{Event, TriggerEvent};
use maybenot::Machine;
use rand_core::RngCore;

/// Per-machine runtime of the model.
#[derive(Clone, Debug, PartialEq, Eq, Hash)]
pub struct MRt {
    pub cur: usize,
    pub limit: u64,
    pub pad: u64,
    pub norm: u64,
    pub blocked: u64,
    pub a: u64,
    pub b: u64,
}

/// One model step, comparable with the hook's `VerifStep`.
#[derive(Clone, Debug, PartialEq, Eq)]
pub struct SpecStep {
    pub machine: usize,
    pub event: Event,
    pub from_state: usize,
    pub live: bool,
    pub target: Option<usize>,
}

#[derive(Clone, Debug)]
pub struct Spec {
    pub rt: Vec<MRt>,
    pub pad: u64,
    pub norm: u64,
    pub blocked: u64,
    pub active: bool,
    pub since: u64,
    pub start: u64,
    pub fw_pad_frac: f64,
    pub fw_blk_frac: f64,
    pub now: u64,
    /// machines that moved to the signal pseudo-state, in order of first signalling
    signallers: Vec<usize>,
    out: Vec<Option<Act>>,
    zeroed: Vec<(bool, bool)>,
    pub log: Vec<SpecStep>,
}

pub fn sample_limit<R: RngCore>(a: &Action, rng: &mut R) -> u64 {
    match a {
        Action::SendPadding { limit, .. } | Action::BlockOutgoing { limit, .. } | Action::UpdateTimer { limit, .. } => {
            match limit {
                None => u64::MAX,
                Some(d) => d.sample(rng).round() as u64,
            }
        }
        Action::Cancel { .. } => u64::MAX,
    }
}
pub fn has_limit(a: &Action) -> bool {
    match a {
        Action::SendPadding { limit, .. } | Action::BlockOutgoing { limit, .. } | Action::UpdateTimer { limit, .. } => {
            limit.is_some()
        }
        Action::Cancel { .. } => false,
    }
}

impl Spec {
    /// `Framework::new`: every machine starts in state 0 with the limit of that
    /// state's action sampled, in machine order.
    pub fn new<R: RngCore>(ms: &[Machine], pf: f64, bf: f64, start: u64, rng: &mut R) -> Self {
        let mut rt = vec![];
        for m in ms {
            let limit = match m.states[0].action {
                Some(a) => sample_limit(&a, rng),
                None => 0,
            };
            rt.push(MRt { cur: 0, limit, pad: 0, norm: 0, blocked: 0, a: 0, b: 0 });
        }
        Spec {
            rt,
            pad: 0,
            norm: 0,
            blocked: 0,
            active: false,
            since: start,
            start,
            fw_pad_frac: pf,
            fw_blk_frac: bf,
            now: start,
            signallers: vec![],
            out: vec![None; ms.len()],
            zeroed: vec![(false, false); ms.len()],
            log: vec![],
        }
    }

    pub fn trigger<R: RngCore>(&mut self, ms: &[Machine], evs: &[TriggerEvent], now: u64, rng: &mut R) -> Vec<Act> {
        // 1. per-call scratch
        for o in self.out.iter_mut() {
            *o = None;
        }
        for z in self.zeroed.iter_mut() {
            *z = (false, false);
        }
        self.log.clear();
        self.signallers.clear();
        self.now = now;
        let n = ms.len();
        // 2. events in order, each against the machines in index order
        for e in evs {
            match e {
                TriggerEvent::NormalRecv => self.broadcast(ms, Event::NormalRecv, rng),
                TriggerEvent::PaddingRecv => self.broadcast(ms, Event::PaddingRecv, rng),
                TriggerEvent::TunnelRecv => self.broadcast(ms, Event::TunnelRecv, rng),
                TriggerEvent::TunnelSent => self.broadcast(ms, Event::TunnelSent, rng),
                TriggerEvent::NormalSent => {
                    self.norm += 1;
                    for i in 0..n {
                        self.rt[i].norm += 1;
                        self.step(ms, i, Event::NormalSent, rng);
                    }
                }
                TriggerEvent::PaddingSent { machine } => {
                    self.pad += 1;
                    let m = machine.into_raw();
                    if m < n {
                        self.rt[m].pad += 1;
                        let changed = self.step(ms, m, Event::PaddingSent, rng);
                        self.completion(ms, m, changed, rng);
                    }
                }
                TriggerEvent::BlockingBegin { machine } => {
                    if !self.active {
                        self.active = true;
                        self.since = now;
                    }
                    let m = machine.into_raw();
                    for i in 0..n {
                        let changed = self.step(ms, i, Event::BlockingBegin, rng);
                        if i == m {
                            self.completion(ms, i, changed, rng);
                        }
                    }
                }
                TriggerEvent::BlockingEnd => {
                    let mut d = 0;
                    if self.active {
                        d = now.saturating_sub(self.since);
                        self.blocked += d;
                        self.active = false;
                    }
                    for i in 0..n {
                        self.rt[i].blocked += d;
                        self.step(ms, i, Event::BlockingEnd, rng);
                    }
                }
                TriggerEvent::TimerBegin { machine } => {
                    let m = machine.into_raw();
                    if m < n {
                        let changed = self.step(ms, m, Event::TimerBegin, rng);
                        self.completion(ms, m, changed, rng);
                    }
                }
                TriggerEvent::TimerEnd { machine } => {
                    let m = machine.into_raw();
                    if m < n {
                        self.step(ms, m, Event::TimerEnd, rng);
                    }
                }
            }
        }
        // 5. one round of signals
        let first: Vec<usize> = std::mem::take(&mut self.signallers);
        if !first.is_empty() {
            let lone = if first.len() == 1 { Some(first[0]) } else { None };
            for i in 0..n {
                if Some(i) == lone {
                    continue;
                }
                self.step(ms, i, Event::Signal, rng);
            }
            // a receiver answered by signalling: the lone signaller gets its one Signal
            let answered = !self.signallers.is_empty();
            if answered {
                if let Some(x) = lone {
                    self.step(ms, x, Event::Signal, rng);
                }
            }
            // nothing is carried over into the next call
            self.signallers.clear();
        }
        self.out.iter().filter_map(|o| o.clone()).collect()
    }

    fn broadcast<R: RngCore>(&mut self, ms: &[Machine], ev: Event, rng: &mut R) {
        for i in 0..ms.len() {
            self.step(ms, i, ev, rng);
        }
    }

    /// 4. a completion of machine `i`'s own action that did not change its
    /// state consumes one unit of the stay's limit.
    fn completion<R: RngCore>(&mut self, ms: &[Machine], i: usize, changed: bool, rng: &mut R) {
        if changed || self.rt[i].cur == STATE_END {
            return;
        }
        if self.rt[i].limit > 0 {
            self.rt[i].limit -= 1;
        }
        if let Some(a) = ms[i].states[self.rt[i].cur].action {
            if self.rt[i].limit == 0 && has_limit(&a) {
                self.out[i] = None;
                self.step(ms, i, Event::LimitReached, rng);
            }
        }
    }

    /// 3. one machine step; returns whether the machine's state changed
    /// (including through a chained CounterZero round trip).
    fn step<R: RngCore>(&mut self, ms: &[Machine], i: usize, ev: Event, rng: &mut R) -> bool {
        let from = self.rt[i].cur;
        let li = self.log.len();
        self.log.push(SpecStep { machine: i, event: ev, from_state: from, live: from != STATE_END, target: None });
        if from == STATE_END {
            return false;
        }
        let target = ms[i].states[from].sample_state(ev, rng);
        self.log[li].target = target;
        let Some(s) = target else {
            return false;
        };
        if s == STATE_END {
            self.rt[i].cur = STATE_END;
            return true;
        }
        if s == STATE_SIGNAL {
            if !self.signallers.contains(&i) {
                self.signallers.push(i);
            }
            return false;
        }
        if s != from {
            self.rt[i].cur = s;
            self.rt[i].limit = match ms[i].states[s].action {
                Some(a) => sample_limit(&a, rng),
                None => u64::MAX,
            };
        }
        // budget predicate before the counter update
        let below = self.below(ms, i);
        let (allow, chained) = self.counters(ms, i, rng);
        if allow && below {
            self.out[i] = self.instantiate(ms, i, s, rng);
        }
        !(from == self.rt[i].cur && !chained)
    }

    fn counters<R: RngCore>(&mut self, ms: &[Machine], i: usize, rng: &mut R) -> (bool, bool) {
        let st = &ms[i].states[self.rt[i].cur];
        let (old_a, old_b) = (self.rt[i].a, self.rt[i].b);
        let mut raise = false;
        let apply = |c: &Counter, cur: u64, other_old: u64, rng: &mut R| -> u64 {
            let v = if c.copy { other_old } else { c.sample_value(rng) };
            match c.operation {
                Operation::Increment => cur.saturating_add(v),
                Operation::Decrement => cur.saturating_sub(v),
                Operation::Set => v,
            }
        };
        if let Some(c) = st.counter.0 {
            let na = apply(&c, old_a, old_b, rng);
            self.rt[i].a = na;
            if old_a != 0 && na == 0 && !self.zeroed[i].0 {
                raise = true;
                self.zeroed[i].0 = true;
            }
        }
        if let Some(c) = st.counter.1 {
            let nb = apply(&c, old_b, old_a, rng);
            self.rt[i].b = nb;
            if old_b != 0 && nb == 0 && !self.zeroed[i].1 {
                raise = true;
                self.zeroed[i].1 = true;
            }
        }
        if raise {
            // only an action scheduled by the CounterZero step itself takes precedence over the entered state's
            // action; an action pending from an earlier event of the same call does not count as one
            let pending = self.out[i].take();
            let changed = self.step(ms, i, Event::CounterZero, rng);
            let scheduled = self.out[i].is_some();
            if !scheduled {
                self.out[i] = pending;
            }
            return (!scheduled, changed);
        }
        (true, false)
    }

    /// 6. budget predicates as C02 / C03 / C07 state them.
    fn below(&self, ms: &[Machine], i: usize) -> bool {
        let r = &self.rt[i];
        let m = &ms[i];
        let Some(a) = m.states[r.cur].action else {
            return false;
        };
        match a {
            Action::Cancel { .. } => true,
            Action::UpdateTimer { .. } => r.limit > 0,
            Action::SendPadding { .. } => {
                if r.pad < m.allowed_padding_packets {
                    return r.limit > 0;
                }
                if m.max_padding_frac > 0.0 {
                    let t = r.norm + r.pad;
                    if t > 0 && r.pad as f64 / t as f64 >= m.max_padding_frac {
                        return false;
                    }
                }
                if self.fw_pad_frac > 0.0 {
                    let t = self.norm + self.pad;
                    if t > 0 && self.pad as f64 / t as f64 >= self.fw_pad_frac {
                        return false;
                    }
                }
                r.limit > 0
            }
            Action::BlockOutgoing { replace, .. } => {
                if replace && self.active {
                    return r.limit > 0;
                }
                let ongoing = if self.active { self.now.saturating_sub(self.since) } else { 0 };
                let mb = r.blocked + ongoing;
                let gb = self.blocked + ongoing;
                if mb < m.allowed_blocked_microsec {
                    return r.limit > 0;
                }
                let el = self.now.saturating_sub(self.start);
                if m.max_blocking_frac > 0.0 && mb as f64 / el as f64 >= m.max_blocking_frac {
                    return false;
                }
                if self.fw_blk_frac > 0.0 && gb as f64 / el as f64 >= self.fw_blk_frac {
                    return false;
                }
                r.limit > 0
            }
        }
    }

    fn instantiate<R: RngCore>(&self, ms: &[Machine], i: usize, s: usize, rng: &mut R) -> Option<Act> {
        let a = ms[i].states[s].action?;
        Some(match a {
            Action::Cancel { timer } => Act::Cancel { m: i, timer: crate::types::timer_code(timer) },
            Action::SendPadding { bypass, replace, timeout, .. } => Act::Pad {
                m: i,
                timeout: timeout.sample(rng).min(MAX_SAMPLED_TIMEOUT).round() as u64,
                bypass,
                replace,
            },
            Action::BlockOutgoing { bypass, replace, timeout, duration, .. } => {
                let t = timeout.sample(rng).min(MAX_SAMPLED_TIMEOUT).round() as u64;
                let d = duration.sample(rng).min(MAX_SAMPLED_BLOCK_DURATION).round() as u64;
                Act::Block { m: i, timeout: t, duration: d, bypass, replace }
            }
            Action::UpdateTimer { replace, duration, .. } => Act::Timer {
                m: i,
                duration: duration.sample(rng).min(MAX_SAMPLED_TIMER_DURATION).round() as u64,
                replace,
            },
        })
    }

    /// The model's state as a string (part of the product state key).
    pub fn key_string(&self) -> String {
        format!("{:?}|{}|{}|{}|{}|{}", self.rt, self.pad, self.norm, self.blocked, self.active, self.since)
    }
}
