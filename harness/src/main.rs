//! vcheck — driver for the per-property checks.
//!
//!   vcheck <Cxx> <quick|thorough>      supervisor: runs the worker in a child, judges, writes evidence
//!   vcheck --worker <Cxx> <tier>       worker: explores, writes its result to $VERIF_RESULT
//!   vcheck replay <file>               re-executes a replay file twice without the explorer
//!
//! Exit codes: 0 held on everything explored; 1 VIOLATION; 2 machinery failure.
use serde_json::{json, Value};
use std::path::PathBuf;
use vharness::checks::{self, WorkerCtx, WorkerOut};
use vharness::supervise::*;

#[global_allocator]
static GLOBAL: vharness::alloc::Counting = vharness::alloc::Counting;

struct CheckDef {
    id: &'static str,
    worker: fn(&WorkerCtx) -> WorkerOut,
    replay: Option<fn(&Value) -> Result<Option<String>, String>>,
    /// a worker abort / hang is a violation of this property (it states totality)
    crash_is_violation: bool,
}

fn defs() -> Vec<CheckDef> {
    vec![
        CheckDef { id: "C01", worker: checks::c01::worker, replay: Some(checks::c01::replay), crash_is_violation: true },
        CheckDef { id: "C08", worker: checks::c08::worker, replay: Some(checks::c08::replay), crash_is_violation: false },
        CheckDef { id: "C09", worker: checks::c09::worker, replay: Some(checks::c09::replay), crash_is_violation: false },
        CheckDef { id: "C10", worker: checks::c10::worker, replay: Some(checks::c10::replay), crash_is_violation: false },
        CheckDef { id: "C14", worker: checks::simchecks::worker_c14, replay: Some(checks::simchecks::replay), crash_is_violation: true },
        CheckDef { id: "C15", worker: checks::simchecks::worker_c15, replay: Some(checks::simchecks::replay), crash_is_violation: false },
        CheckDef { id: "C16", worker: checks::simchecks::worker_c16, replay: Some(checks::simchecks::replay), crash_is_violation: false },
        CheckDef { id: "C17", worker: checks::simchecks::worker_c17, replay: Some(checks::simchecks::replay), crash_is_violation: false },
        CheckDef { id: "C18", worker: checks::simchecks::worker_c18, replay: Some(checks::simchecks::replay), crash_is_violation: false },
        CheckDef { id: "C19", worker: checks::simchecks::worker_c19, replay: Some(checks::simchecks::replay), crash_is_violation: true },
        CheckDef { id: "C06", worker: checks::c06::worker, replay: Some(checks::c06::replay), crash_is_violation: false },
        CheckDef { id: "C12", worker: checks::c12::worker, replay: None, crash_is_violation: true },
        CheckDef { id: "C11", worker: checks::c11::worker, replay: Some(checks::c11::replay), crash_is_violation: true },
        CheckDef { id: "C13", worker: checks::c13::worker, replay: Some(checks::c13::replay), crash_is_violation: true },
        CheckDef { id: "C20", worker: checks::c20::worker, replay: Some(checks::c20::replay), crash_is_violation: true },
        CheckDef { id: "C02", worker: checks::c02::worker, replay: Some(checks::c02::replay), crash_is_violation: false },
        CheckDef { id: "C03", worker: checks::c03::worker, replay: Some(checks::c03::replay), crash_is_violation: false },
        CheckDef { id: "C04", worker: checks::c04::worker, replay: Some(checks::c04::replay), crash_is_violation: false },
        CheckDef { id: "C07", worker: checks::c07::worker, replay: Some(checks::c07::replay), crash_is_violation: false },
        CheckDef { id: "C05", worker: checks::c05::worker, replay: Some(checks::c05::replay), crash_is_violation: true },
    ]
}

fn seed() -> u64 {
    std::env::var("VERIF_SEED").ok().and_then(|s| s.parse().ok()).unwrap_or(1)
}

fn main() {
    let args: Vec<String> = std::env::args().skip(1).collect();
    let code = match args.first().map(|s| s.as_str()) {
        Some("--worker") => run_worker(&args[1], &args[2]),
        Some("--c13-helper") => checks::c13::helper_main(),
        Some("--c01-binomial-helper") => checks::c01::binomial_helper_main(),
        Some("replay") => run_replay(&args[1]),
        Some("--replay-inner") => run_replay_inner(&args[1]),
        Some(id) if args.len() >= 2 => supervise(id, &args[1]),
        _ => {
            eprintln!("usage: vcheck <Cxx> <quick|thorough> | vcheck replay <file>");
            2
        }
    };
    std::process::exit(code);
}

fn find(id: &str) -> Option<CheckDef> {
    defs().into_iter().find(|d| d.id == id)
}

fn run_worker(id: &str, tier: &str) -> i32 {
    let Some(d) = find(id) else {
        eprintln!("unknown check {id}");
        return 2;
    };
    vharness::explore::install_quiet_panic_hook();
    let ctx = WorkerCtx { tier: tier.to_string(), seed: seed(), only_unit: only_unit_from_env() };
    let out = (d.worker)(&ctx);
    let path = std::env::var("VERIF_RESULT").unwrap_or_else(|_| "/dev/stdout".into());
    std::fs::write(&path, out.to_json().to_string()).expect("cannot write worker result");
    0
}

/// `vcheck replay <file>`: the replay itself runs in a child process, so that a history that kills the process
/// running the subject (stack overflow, abort) still ends in a verdict: killed the same way twice = reproduced.
fn run_replay(file: &str) -> i32 {
    let exe = std::env::current_exe().expect("exe");
    let once = || std::process::Command::new(&exe).arg("--replay-inner").arg(file).status();
    let st = match once() {
        Ok(s) => s,
        Err(e) => {
            eprintln!("cannot start the replay process: {e}");
            return 2;
        }
    };
    if let Some(c) = st.code() {
        if c == 0 || c == 1 || c == 2 {
            return c;
        }
    }
    let st2 = once().ok();
    let same = st2.map(|s| format!("{:?}", s) == format!("{:?}", st)).unwrap_or(false);
    let id = std::fs::read_to_string(file).ok().and_then(|s| serde_json::from_str::<Value>(&s).ok()).and_then(|v| v["property"].as_str().map(|s| s.to_string())).unwrap_or_default();
    if same && find(&id).map(|d| d.crash_is_violation).unwrap_or(false) {
        println!("replayed twice in a child process, which was killed the same way both times: {:?}", st);
        println!("VIOLATION property={id} replay={file}");
        return 1;
    }
    eprintln!("replay process ended abnormally: {:?} (second run the same: {same})", st);
    2
}

fn run_replay_inner(file: &str) -> i32 {
    let Ok(s) = std::fs::read_to_string(file) else {
        eprintln!("cannot read {file}");
        return 2;
    };
    let Ok(v) = serde_json::from_str::<Value>(&s) else {
        eprintln!("not JSON: {file}");
        return 2;
    };
    let id = v["property"].as_str().unwrap_or("");
    let Some(d) = find(id) else {
        eprintln!("replay file names unknown property {id:?}");
        return 2;
    };
    let Some(r) = d.replay else {
        eprintln!("{id} has no replay");
        return 2;
    };
    vharness::explore::install_quiet_panic_hook();
    match r(&v) {
        Ok(Some(msg)) => {
            println!("replayed twice, same failure both times:\n  {msg}");
            println!("VIOLATION property={id} replay={file}");
            1
        }
        Ok(None) => {
            println!("replayed twice: the property holds on this history (no violation)");
            0
        }
        Err(e) => {
            eprintln!("replay failed: {e}");
            2
        }
    }
}

fn tmp_dir() -> PathBuf {
    let d = verif_dir().join("harness").join("target").join("run");
    let _ = std::fs::create_dir_all(&d);
    d
}

fn read_result(path: &PathBuf) -> Option<Value> {
    let s = std::fs::read_to_string(path).ok()?;
    serde_json::from_str(&s).ok()
}

fn supervise(id: &str, tier: &str) -> i32 {
    let Some(d) = find(id) else {
        eprintln!("unknown check {id}");
        return 2;
    };
    let t0 = std::time::Instant::now();
    let pid = std::process::id();
    let crumbs_path = tmp_dir().join(format!("crumbs-{id}-{pid}"));
    let result_path = tmp_dir().join(format!("result-{id}-{pid}.json"));
    let fine_path = tmp_dir().join(format!("fine-{id}-{pid}.json"));
    let _ = std::fs::remove_file(&result_path);
    let crumbs = Crumbs::open(&crumbs_path, true).expect("cannot create crumbs file");
    let quick = tier != "thorough";
    let quiet_s = std::env::var("VERIF_QUIET_S").ok().and_then(|s| s.parse().ok()).unwrap_or(if quick { 120 } else { 600 });
    let wall_s = std::env::var("VERIF_WALL_S").ok().and_then(|s| s.parse().ok()).unwrap_or(if quick { 900 } else { 6 * 3600 });
    let envs = vec![
        ("VERIF_CRUMBS".to_string(), crumbs_path.display().to_string()),
        ("VERIF_RESULT".to_string(), result_path.display().to_string()),
        ("VERIF_DIR".to_string(), verif_dir().display().to_string()),
    ];
    let out = run_child(&["--worker".into(), id.into(), tier.into()], &envs, &crumbs, quiet_s, wall_s);
    let cleanup = || {
        let _ = std::fs::remove_file(&crumbs_path);
        let _ = std::fs::remove_file(&result_path);
        let _ = std::fs::remove_file(&fine_path);
    };
    let clean_exit = out.status == Some(0);
    if !clean_exit {
        // crash / hang attribution: re-run each unit that was in flight, alone, in fine mode
        let why = if out.hung {
            format!("no progress for {quiet_s} s (hang)")
        } else if out.wall_timeout {
            format!("wall limit {wall_s} s")
        } else {
            format!("exit status {:?} signal {:?}", out.status, out.signal)
        };
        eprintln!("worker for {id} did not finish: {why}");
        if out.wall_timeout {
            cleanup();
            eprintln!("machinery: wall limit reached, no verdict");
            return 2;
        }
        let units = crumbs.active();
        let mut reported = vec![];
        for u in units {
            let _ = std::fs::remove_file(&fine_path);
            let _ = std::fs::remove_file(&result_path);
            let mut e2 = envs.clone();
            e2.push(("VERIF_ONLY_UNIT".into(), u.to_string()));
            e2.push(("VERIF_FINE_CRUMB".into(), fine_path.display().to_string()));
            let o2 = run_child(&["--worker".into(), id.into(), tier.into()], &e2, &crumbs, 30, 600);
            if o2.status == Some(0) {
                // finished alone: maybe it found an ordinary violation
                if let Some(v) = read_result(&result_path) {
                    for r in v["reported"].as_array().cloned().unwrap_or_default() {
                        reported.push(Reported { signature: r["signature"].as_str().unwrap_or("").into(), summary: r["summary"].as_str().unwrap_or("").into(), replay: r["replay"].clone() });
                    }
                }
                continue;
            }
            if let Some(mut v) = read_result(&fine_path) {
                let how = if o2.hung { "hang (no progress for 30 s)".to_string() } else { format!("abort (status {:?}, signal {:?})", o2.status, o2.signal) };
                v["property"] = json!(id);
                v["message"] = json!(format!("worker died while executing the last operation: {how}"));
                reported.push(Reported { signature: format!("crash:{}:{}", v["config"]["label"].as_str().unwrap_or(""), how), summary: format!("subject {how} in unit {u}"), replay: v });
                break;
            }
        }
        if reported.is_empty() || !d.crash_is_violation && reported.iter().all(|r| r.signature.starts_with("crash:")) {
            cleanup();
            eprintln!("machinery: worker failure could not be attributed to the property under check ({why})");
            return 2;
        }
        let verdict = judge(id, &reported);
        write_evidence(
            id,
            tier,
            seed(),
            match id {
                "C11" => "fault_enumeration",
                "C12" | "C13" => "exploration",
                _ => "model_checking",
            },
            json!({"evaluations": 2, "distinct_nontrivial": 2, "states": 1, "transitions": 1, "traces_validated_against_impl": 1, "rule": "the run was cut short by a crash or hang of the subject, attributed through breadcrumbs; the two cases counted are the crashing operation and its isolated re-execution", "samples": ["see the replay file named on the VIOLATION line"], "exhaustive": false}),
            vec![],
            t0.elapsed().as_secs_f64(),
            verdict.unknown,
        );
        cleanup();
        return verdict.exit;
    }
    let Some(v) = read_result(&result_path) else {
        cleanup();
        eprintln!("machinery: worker left no result");
        return 2;
    };
    let reported: Vec<Reported> = v["reported"]
        .as_array()
        .cloned()
        .unwrap_or_default()
        .into_iter()
        .map(|r| Reported { signature: r["signature"].as_str().unwrap_or("").into(), summary: r["summary"].as_str().unwrap_or("").into(), replay: r["replay"].clone() })
        .collect();
    // confirm reproducibility of every replayable violation before it becomes a verdict; a report that does
    // not reproduce is dropped (and makes the run a machinery failure if nothing reproducible remains)
    let mut confirmed = vec![];
    let mut dropped = 0usize;
    for r in reported {
        if let (Some(rp), true) = (d.replay, r.replay.get("ops").is_some() || r.replay.get("system").is_some() || r.replay.get("pair_index").is_some() || r.replay.get("config_index").is_some()) {
            vharness::explore::install_quiet_panic_hook();
            // the replay runs the subject again; if the subject panics outside the replay's own guards the
            // same way twice, the report is confirmed (the history deterministically crashes it)
            let guarded = |r: &Reported| -> Result<Option<String>, String> {
                let once = || std::panic::catch_unwind(std::panic::AssertUnwindSafe(|| rp(&r.replay)));
                match once() {
                    Ok(x) => x,
                    Err(_) => {
                        let m1 = vharness::explore::last_panic();
                        match once() {
                            Err(_) if vharness::explore::last_panic() == m1 => Ok(Some(format!("replay panicked twice: {m1}"))),
                            _ => Err(format!("replay panicked once: {m1}")),
                        }
                    }
                }
            };
            match guarded(&r) {
                Ok(Some(_)) => confirmed.push(r),
                Ok(None) => {
                    eprintln!("machinery: a reported violation did not reproduce on replay (dropped): {}", r.summary.lines().next().unwrap_or(""));
                    dropped += 1;
                }
                Err(e) => {
                    eprintln!("machinery: replay error (dropped): {e}");
                    dropped += 1;
                }
            }
            let _ = std::panic::take_hook();
        } else {
            confirmed.push(r);
        }
    }
    if confirmed.is_empty() && dropped > 0 {
        cleanup();
        eprintln!("machinery: {dropped} reported violation(s), none reproducible; no verdict");
        return 2;
    }
    let verdict = judge(id, &confirmed);
    let mut coverage = v["coverage"].clone();
    coverage["known_findings_matched"] = json!(verdict.known);
    let level = v["level"].as_str().unwrap_or("model_checking").to_string();
    let assumptions: Vec<String> = v["assumptions"].as_array().cloned().unwrap_or_default().into_iter().filter_map(|x| x.as_str().map(|s| s.to_string())).collect();
    write_evidence(id, tier, seed(), &level, coverage.clone(), assumptions, t0.elapsed().as_secs_f64(), verdict.unknown);
    cleanup();
    if verdict.exit == 0 {
        if let Some(reason) = v["vacuous"].as_str() {
            eprintln!("machinery: run was vacuous ({reason}); no verdict");
            return 2;
        }
        println!(
            "{id} {tier}: held on everything explored: states={} transitions={} evaluations={} nontrivial={} exhaustive={} known_findings={} wall={:.1}s",
            coverage["states"], coverage["transitions"], coverage["evaluations"], coverage["distinct_nontrivial"], coverage["exhaustive"], verdict.known, t0.elapsed().as_secs_f64()
        );
    }
    verdict.exit
}
