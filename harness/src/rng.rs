//! Owned randomness.
//!
//! `ChoiceRng`: every `next_u32` / `next_u64` the subject performs is a *choice
//! point* answered from a small explicit menu. The answers come from a
//! thread-local script (a list of menu indices); positions beyond the script
//! get the default answer 0. After a call the explorer reads how many choice
//! points were hit and enumerates every alternative ("replay prefix, then
//! default"). A per-call cap on draws turns a draw-consuming endless loop into
//! a panic the explorer can attribute.
//!
//! `WordRng`: an explicit list of 64-bit words followed by a fair Xoshiro tail
//! (used by the draw-space and distribution engines).
use rand_core::{RngCore, SeedableRng};
use rand_xoshiro::Xoshiro256StarStar;
use std::cell::RefCell;

/// u32 menu. rand maps a word w to r = (w >> 9) / 2^23 for `gen_range(0f32..1f32)`:
/// r = 0, 1/2, 1/2 - 2^-23, 1 - 2^-23, then the words around 1/4 and 3/4.
pub const M32: [u32; 8] = [
    0x0000_0000,
    0x8000_0000,
    0x7FFF_FFFF,
    0xFFFF_FFFF,
    0x3FFF_FFFF,
    0x4000_0000,
    0xBFFF_FFFF,
    0xC000_0000,
];
/// u64 menu (f64 `gen_range(low..high)` uses the top 52 bits).
pub const M64: [u64; 4] = [
    0,
    0xAAAA_AAAA_AAAA_AAAA,
    0xFFFF_FFFF_FFFF_FFFF,
    0x5555_5555_5555_5555,
];

pub const DRAW_CAP: usize = 20_000;
pub const TAIL_SEED: u64 = 0x5EED_7A11;

struct Tl {
    script: Vec<u8>,
    pos: usize,
    m32: Vec<u32>,
    m64: Vec<u64>,
    kinds: Vec<u8>, // 32 or 64 per draw of the last call
    /// draws at positions >= choice_cap are not choice points: they come from a
    /// fair pseudo-random tail, re-seeded identically at every `set_script`
    /// ("any finite prefix of arbitrary words followed by fair outputs"; a
    /// constant stream is a degenerate source under which rejection samplers
    /// legitimately never accept)
    choice_cap: usize,
    tail: Xoshiro256StarStar,
}
thread_local! {
    static TL: RefCell<Tl> = RefCell::new(Tl { script: vec![], pos: 0, m32: M32[..2].to_vec(), m64: M64[..2].to_vec(), kinds: vec![], choice_cap: 10, tail: Xoshiro256StarStar::seed_from_u64(TAIL_SEED) });
}

/// Set the menu sizes used by this thread's explorer (how many alternatives a
/// u32 / u64 choice point has).
pub fn set_menu(n32: u8, n64: u8) {
    assert!(n32 as usize <= M32.len() && n64 as usize <= M64.len() && n32 >= 1 && n64 >= 1);
    set_menu_words(&M32[..n32 as usize], &M64[..n64 as usize]);
}
/// Set explicit menus (e.g. only central words for configurations containing a
/// Binomial distribution, whose sampler defect under extreme words is C13's).
pub fn set_menu_words(m32: &[u32], m64: &[u64]) {
    assert!(!m32.is_empty() && !m64.is_empty() && m32.len() < 256 && m64.len() < 256);
    TL.with(|c| {
        let mut c = c.borrow_mut();
        c.m32 = m32.to_vec();
        c.m64 = m64.to_vec();
    });
}
pub fn set_script(s: &[u8]) {
    TL.with(|c| {
        let mut c = c.borrow_mut();
        c.script.clear();
        c.script.extend_from_slice(s);
        c.pos = 0;
        c.kinds.clear();
        c.tail = Xoshiro256StarStar::seed_from_u64(TAIL_SEED);
    });
}
pub fn set_choice_cap(n: usize) {
    TL.with(|c| c.borrow_mut().choice_cap = n);
}
/// Number of choice points hit since the last `set_script`.
pub fn draws() -> usize {
    TL.with(|c| {
        let c = c.borrow();
        c.pos.min(c.choice_cap)
    })
}
/// all draws of the last run, including those served by the fair tail
pub fn total_draws() -> usize {
    TL.with(|c| c.borrow().pos)
}
/// Number of alternatives at choice point `i` of the last run.
pub fn arity(i: usize) -> u8 {
    TL.with(|c| {
        let c = c.borrow();
        if c.kinds[i] == 32 {
            c.m32.len() as u8
        } else {
            c.m64.len() as u8
        }
    })
}
fn next_choice(kind: u8) -> u64 {
    TL.with(|c| {
        let mut c = c.borrow_mut();
        let i = c.pos;
        c.pos += 1;
        if i >= DRAW_CAP {
            panic!("draw cap exceeded: more than {} random draws in one call", DRAW_CAP);
        }
        if i >= c.choice_cap {
            let w = c.tail.next_u64();
            return if kind == 32 { (w >> 32) as u32 as u64 } else { w };
        }
        c.kinds.push(kind);
        let n = if kind == 32 { c.m32.len() } else { c.m64.len() };
        let a = c.script.get(i).copied().unwrap_or(0) as usize;
        assert!(a < n, "replay script out of range at choice point {}: {} >= {}", i, a, n);
        if kind == 32 {
            c.m32[a] as u64
        } else {
            c.m64[a]
        }
    })
}

#[derive(Clone, Default)]
pub struct ChoiceRng;
impl std::fmt::Debug for ChoiceRng {
    fn fmt(&self, f: &mut std::fmt::Formatter<'_>) -> std::fmt::Result {
        write!(f, "R")
    }
}
impl RngCore for ChoiceRng {
    fn next_u32(&mut self) -> u32 {
        next_choice(32) as u32
    }
    fn next_u64(&mut self) -> u64 {
        next_choice(64)
    }
    fn fill_bytes(&mut self, d: &mut [u8]) {
        for b in d.iter_mut() {
            *b = self.next_u32() as u8;
        }
    }
    fn try_fill_bytes(&mut self, d: &mut [u8]) -> Result<(), rand_core::Error> {
        self.fill_bytes(d);
        Ok(())
    }
}

/// Explicit words, then a fair tail. `next_u32` takes the *low* half of the next
/// word only for the tail; scripted words are consumed whole by either call
/// (a u32 draw uses the low 32 bits), and every draw is counted.
#[derive(Clone)]
pub struct WordRng {
    pub words: Vec<u64>,
    pub pos: usize,
    pub tail: Xoshiro256StarStar,
    pub cap: usize,
}
impl WordRng {
    pub fn new(words: &[u64], tail_seed: u64) -> Self {
        WordRng { words: words.to_vec(), pos: 0, tail: Xoshiro256StarStar::seed_from_u64(tail_seed), cap: usize::MAX }
    }
    fn word(&mut self) -> u64 {
        let i = self.pos;
        self.pos += 1;
        if self.pos > self.cap {
            panic!("draw cap exceeded: more than {} random draws in one sample", self.cap);
        }
        if i < self.words.len() {
            self.words[i]
        } else {
            self.tail.next_u64()
        }
    }
}
impl std::fmt::Debug for WordRng {
    fn fmt(&self, f: &mut std::fmt::Formatter<'_>) -> std::fmt::Result {
        write!(f, "WordRng")
    }
}
impl RngCore for WordRng {
    fn next_u32(&mut self) -> u32 {
        self.word() as u32
    }
    fn next_u64(&mut self) -> u64 {
        self.word()
    }
    fn fill_bytes(&mut self, d: &mut [u8]) {
        for b in d.iter_mut() {
            *b = self.word() as u8;
        }
    }
    fn try_fill_bytes(&mut self, d: &mut [u8]) -> Result<(), rand_core::Error> {
        self.fill_bytes(d);
        Ok(())
    }
}
