//! C04 — output contract: at most one action per machine per call, each naming
//! a distinct existing machine; none without machines; kind and flags of each
//! action are those of an action defined in some state of the named machine;
//! timeouts and durations at most 24 h; an ended machine never yields an action
//! in a later call.
use super::*;
use crate::fam;
use crate::types::*;
use maybenot::action::Action;
use maybenot::constants::STATE_END;

pub const DAY_US: u64 = 86_400_000_000;

#[derive(Clone)]
pub struct Obs {
    /// machines seen in their end state at the end of some earlier call (sticky: END is absorbing)
    ended: Vec<bool>,
}

fn matches_some_state(m: &maybenot::Machine, a: &Act) -> bool {
    m.states.iter().any(|s| match (s.action, a) {
        (Some(Action::Cancel { timer }), Act::Cancel { timer: t, .. }) => timer_code(timer) == *t,
        (Some(Action::SendPadding { bypass, replace, .. }), Act::Pad { bypass: b, replace: r, .. }) => bypass == *b && replace == *r,
        (Some(Action::BlockOutgoing { bypass, replace, .. }), Act::Block { bypass: b, replace: r, .. }) => bypass == *b && replace == *r,
        (Some(Action::UpdateTimer { replace, .. }), Act::Timer { replace: r, .. }) => replace == *r,
        _ => false,
    })
}

impl Observer for Obs {
    fn init(cfg: &Cfg, _s: &[u8], _fw: &Fw) -> Result<Self, String> {
        Ok(Obs { ended: vec![false; cfg.machines.len()] })
    }
    fn on_call(&mut self, c: &CallCtx<'_>, stats: &mut Stats) -> Result<bool, String> {
        let n = c.cfg.machines.len();
        if c.actions.len() > n {
            return Err(format!("{} actions returned by a framework of {n} machines", c.actions.len()));
        }
        let mut seen = vec![false; n];
        for a in c.actions {
            let m = a.machine();
            if m >= n {
                return Err(format!("action names machine {m}, but there are only {n}: {a:?}"));
            }
            if seen[m] {
                return Err(format!("two actions for machine {m} in one call: {:?}", c.actions));
            }
            seen[m] = true;
            if !matches_some_state(&c.cfg.machines[m], a) {
                return Err(format!("action {a:?} has a kind/flag combination no state of machine {m} defines"));
            }
            let (t, d) = match a {
                Act::Pad { timeout, .. } => (*timeout, 0),
                Act::Block { timeout, duration, .. } => (*timeout, *duration),
                Act::Timer { duration, .. } => (0, *duration),
                Act::Cancel { .. } => (0, 0),
            };
            if t > DAY_US || d > DAY_US {
                return Err(format!("action {a:?} carries a timeout/duration above 24 h ({DAY_US} us)"));
            }
            if t == DAY_US || d == DAY_US {
                stats.bump("actions_clamped_to_one_day");
            }
            if c.before.machines[m].0 == STATE_END || self.ended[m] {
                return Err(format!("machine {m} had reached its end state in an earlier call, yet yields {a:?}"));
            }
        }
        for (m, x) in c.after.machines.iter().enumerate() {
            if x.0 == STATE_END {
                self.ended[m] = true;
            }
        }
        // also from the step log: a live machine that drew the end state as its transition target has ended,
        // whatever the implementation recorded as its current state
        for s in c.steps {
            if s.live && s.target == Some(STATE_END) && s.machine < self.ended.len() {
                self.ended[s.machine] = true;
            }
        }
        if c.before.machines.iter().any(|x| x.0 == STATE_END) {
            stats.bump("calls_with_an_ended_machine");
        }
        if c.batch.len() > n && !c.actions.is_empty() {
            stats.bump("calls_with_more_events_than_machines_returning_actions");
        }
        Ok(!c.actions.is_empty())
    }
    fn key(&self, out: &mut String) {
        out.push_str(&format!("|{:?}", self.ended));
    }
}

pub fn plans(ctx: &WorkerCtx) -> Vec<Plan> {
    let q = ctx.quick();
    let fr = [(0.0, 0.0), (0.5, 0.5)];
    let base = Opts { n32: 2, n64: 3, ..Default::default() };
    let g1 = fam::g1(if q { 53 } else { 3 });
    let g2 = fam::g2(if q { 3989 } else { 397 }, 1);
    let mut lib = vec![];
    lib.extend(g2.iter().cloned());
    lib.extend(fam::p_sig());
    lib.extend(fam::p_lim().into_iter().step_by(3));
    lib.extend(g1.iter().step_by(2).cloned());
    let big = fam::p_big();
    let mut v = vec![];
    let af = |pairs: bool| -> Box<dyn Fn(&Cfg) -> Alphabet + Sync> { Box::new(move |c: &Cfg| super::c05::alphabet(c.machines.len(), vec![0], pairs)) };
    v.push(Plan { name: "no machines".into(), cfgs: vec![Cfg::new("[] fw(0.5,0.5)", vec![], 0.5, 0.5)], alpha_for: af(true), opts: Opts { depth: 2, ..base.clone() }, walk: None });
    v.push(Plan { name: "P-BIG: heavy-tailed / huge timeouts and durations, extreme RNG words".into(), cfgs: fam::singles(&big, &[(0.0, 0.0)]), alpha_for: af(false), opts: Opts { depth: if q { 2 } else { 3 }, n32: 4, n64: 4, ..base.clone() }, walk: None });
    v.push(Plan { name: "P-BIG Binomial with a start above one day (central RNG words)".into(), cfgs: fam::singles(&fam::p_big_binomial(), &[(0.0, 0.0)]), alpha_for: af(false), opts: Opts { depth: 2, n32: 2, m64_words: Some(vec![0xAAAA_AAAA_AAAA_AAAA, 0x5555_5555_5555_5555]), ..base.clone() }, walk: None });
    v.push(Plan { name: "one machine".into(), cfgs: fam::singles(&lib, &fr[..1]), alpha_for: af(false), opts: Opts { depth: if q { 3 } else { 5 }, ..base.clone() }, walk: None });
    v.push(Plan { name: "one machine, batches of 0..2 events + long batches, two calls deep (an end inside a batch is final)".into(), cfgs: fam::singles(&lib, &fr[..1]).into_iter().step_by(if q { 2 } else { 1 }).collect(), alpha_for: af(true), opts: Opts { depth: if q { 2 } else { 3 }, ..base.clone() }, walk: None });
    v.push(Plan { name: "two machines, batches of 0..2 events + long batches".into(), cfgs: fam::pairs_strided(&lib, 31, 7, &fr).into_iter().step_by(if q { 3 } else { 1 }).collect(), alpha_for: af(true), opts: Opts { depth: if q { 1 } else { 2 }, ..base.clone() }, walk: None });
    v.push(Plan { name: "two machines, singles, deeper".into(), cfgs: fam::pairs_strided(&lib, 17, 5, &fr), alpha_for: af(false), opts: Opts { depth: if q { 2 } else { 4 }, ..base.clone() }, walk: None });
    v.push(Plan { name: "all ordered pairs of signal probes (a machine ends, another one signals later)".into(), cfgs: fam::all_pairs(&fam::p_sig(), &fam::p_sig(), &fr[..1]), alpha_for: af(false), opts: Opts { depth: if q { 4 } else { 5 }, ..base.clone() }, walk: None });
    let corp = fam::corpus(ctx.seed.wrapping_add(33), if q { 150 } else { 1500 });
    v.push(Plan { name: "corpus of generated 3-6 state machines (sampled), pairs: BFS plus long random walks".into(), cfgs: fam::pairs_strided(&corp, 31, 7, &fr), alpha_for: af(false), opts: Opts { depth: if q { 1 } else { 2 }, ..base.clone() }, walk: Some((if q { 3 } else { 6 }, 300)) });
    v.push(Plan { name: "three machines".into(), cfgs: fam::triples_strided(&lib.iter().step_by(if q { 4 } else { 1 }).cloned().collect::<Vec<_>>(), &fr), alpha_for: af(false), opts: Opts { depth: if q { 2 } else { 3 }, full_positions: 4, ..base.clone() }, walk: None });
    v
}

pub const RULE: &str = "every call on the real Framework from every explored state (batches of 0..2 events plus long batches, every RNG script incl. extreme u64 words for heavy-tailed distributions); the observer checks the returned iterator. distinct_nontrivial = distinct states first reached by a call that returned at least one action";

pub fn worker(ctx: &WorkerCtx) -> WorkerOut {
    let s = run_e1::<Obs>("C04", plans(ctx), ctx, RULE);
    let clamped = s.stats.0.get("actions_clamped_to_one_day").copied().unwrap_or(0);
    let vacuous = if (s.nontrivial_states < 1000 || clamped == 0) && ctx.only_unit.is_none() && s.reported.is_empty() { Some(format!("{} non-trivial states, {} clamped actions", s.nontrivial_states, clamped)) } else { None };
    WorkerOut { level: "model_checking", coverage: s.coverage, assumptions: vec!["machine families G1, G2, P-SIG, P-LIM, P-BIG; RNG menus as listed".into()], reported: s.reported, vacuous }
}
pub fn replay(v: &Value) -> Result<Option<String>, String> {
    replay_e1::<Obs>(v, false)
}
