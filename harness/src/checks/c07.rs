//! C07 — per-state limits. The observer keeps, per machine, the remaining
//! limit *as the property prescribes it* (sampled once on entering a state from
//! another state, consumed by the machine's own completions that do not change
//! its state, never refreshed by self-transitions, never touched by other
//! machines' completions) and compares the implementation's observable
//! behaviour with it: LimitReached is raised exactly when the limit is
//! consumed, the pending action is withdrawn, and no limited action is
//! returned from a state whose limit is zero or exhausted.
use super::logparse::{parse, Delivery};
use super::*;
use crate::fam;
use crate::spec::has_limit;
use crate::types::*;
use maybenot::action::Action;
use maybenot::constants::{STATE_END, STATE_SIGNAL};
use maybenot::dist::{Dist, DistType};
use maybenot::event::{Event, TriggerEvent};
use maybenot::Machine;

/// Values a limit distribution can produce (None = not a menu distribution: unknown).
fn support(d: &Dist) -> Option<Vec<u64>> {
    if d.start != 0.0 || d.max != 0.0 {
        return None;
    }
    match d.dist {
        DistType::Uniform { low, high } if low == high && low >= 0.0 => Some(vec![low.round() as u64]),
        DistType::Uniform { low, high } if low >= 0.0 && high <= 64.0 => Some(((low.round() as u64)..=(high.round() as u64)).collect()),
        _ => None,
    }
}
fn limit_of(a: &Option<Action>) -> Option<Option<Vec<u64>>> {
    // outer None: no limit at all (infinite); Some(None): limited, unknown support
    match a {
        Some(Action::SendPadding { limit: Some(d), .. }) | Some(Action::BlockOutgoing { limit: Some(d), .. }) | Some(Action::UpdateTimer { limit: Some(d), .. }) => Some(support(d)),
        _ => None,
    }
}
fn action_matches(a: &Action, r: &Act) -> bool {
    let cst = |d: &Dist| -> Option<u64> {
        match d.dist {
            DistType::Uniform { low, high } if low == high && d.start == 0.0 && d.max == 0.0 => Some(low.min(86_400_000_000.0).round() as u64),
            _ => None,
        }
    };
    match (a, r) {
        (Action::SendPadding { bypass, replace, timeout, .. }, Act::Pad { bypass: b, replace: rp, timeout: t, .. }) => bypass == b && replace == rp && cst(timeout).map(|x| x == *t).unwrap_or(true),
        (Action::BlockOutgoing { bypass, replace, timeout, duration, .. }, Act::Block { bypass: b, replace: rp, timeout: t, duration: d, .. }) => {
            bypass == b && replace == rp && cst(timeout).map(|x| x == *t).unwrap_or(true) && cst(duration).map(|x| x == *d).unwrap_or(true)
        }
        (Action::UpdateTimer { replace, duration, .. }, Act::Timer { replace: rp, duration: d, .. }) => replace == rp && cst(duration).map(|x| x == *d).unwrap_or(true),
        (Action::Cancel { timer }, Act::Cancel { timer: t, .. }) => timer_code(*timer) == *t,
        _ => false,
    }
}

#[derive(Clone, Debug)]
struct MSt {
    cur: usize,
    /// remaining limit of the current stay; None = sampled value not yet known
    rem: Option<u64>,
    /// own completions counted while `rem` was unknown
    unknown_dec: u64,
}
#[derive(Clone)]
pub struct Obs {
    m: Vec<MSt>,
}

fn fresh(mach: &Machine, s: usize) -> Option<u64> {
    match limit_of(&mach.states[s].action) {
        None => Some(u64::MAX),
        Some(Some(v)) if v.len() == 1 => Some(v[0]),
        Some(_) => None,
    }
}
/// resolve an unknown remaining limit from the snapshot, checking the sampled value's support
fn adopt(mach: &Machine, st: &mut MSt, snap_limit: u64, who: usize) -> Result<(), String> {
    if st.rem.is_some() || st.cur == STATE_END {
        return Ok(());
    }
    if let Some(Some(sup)) = limit_of(&mach.states[st.cur].action) {
        let ok = sup.iter().any(|l| l.saturating_sub(st.unknown_dec) == snap_limit);
        if !ok {
            return Err(format!("machine {who}: remaining limit {snap_limit} after {} own completions is not explained by any value {:?} of the state's limit distribution", st.unknown_dec, sup));
        }
    }
    st.rem = Some(snap_limit);
    st.unknown_dec = 0;
    Ok(())
}

impl Observer for Obs {
    fn init(cfg: &Cfg, _s: &[u8], fw: &Fw) -> Result<Self, String> {
        let snap = fw.verif_snapshot();
        let mut m = vec![];
        for (i, mach) in cfg.machines.iter().enumerate() {
            let mut st = MSt { cur: 0, rem: fresh(mach, 0), unknown_dec: 0 };
            adopt(mach, &mut st, snap.machines[i].1, i)?;
            m.push(st);
        }
        Ok(Obs { m })
    }
    fn on_call(&mut self, c: &CallCtx<'_>, stats: &mut Stats) -> Result<bool, String> {
        let n = c.cfg.machines.len();
        let dl: Vec<Delivery> = match parse(c.batch, n, c.steps) {
            Ok(d) => d,
            Err(_) => {
                stats.bump("calls_with_unparsed_log_skipped");
                // resynchronise from the snapshot
                for i in 0..n {
                    self.m[i] = MSt { cur: c.after.machines[i].0, rem: Some(c.after.machines[i].1), unknown_dec: 0 };
                }
                return Ok(false);
            }
        };
        let mut engaged = false;
        // candidates[m]: (state, could_schedule: Some(bool) or None = depends on the unknown sampled limit, unknown_dec at that time)
        let mut cands: Vec<Vec<(usize, Option<bool>, u64, u32)>> = vec![vec![]; n];
        // stay counter per machine within this call: a sampled limit revealed by the snapshot only resolves candidates of the final stay
        let mut stay_id: Vec<u32> = vec![0; n];
        for d in &dl {
            let mi = d.machine;
            let mach = &c.cfg.machines[mi];
            let mut changed = false;
            let mut closed = false;
            let top_live = c.steps[d.start].live;
            for si in d.start..d.end {
                let s = &c.steps[si];
                if !s.live {
                    continue;
                }
                if s.event == Event::LimitReached && !closed {
                    closed = true;
                    let expect = close_completion(d, top_live, changed, mach, &mut self.m[mi], stats);
                    match expect {
                        Lr::No => return Err(format!("machine {mi}: LimitReached raised although the limit of the stay was not consumed by this event ({:?}, own completion: {}, state changed: {changed}, remaining per property: {:?})", d.event, d.own_completion, self.m[mi].rem)),
                        Lr::Yes | Lr::Maybe => {}
                    }
                    cands[mi].clear(); // the pending action is withdrawn
                    engaged = true;
                    stats.bump("limit_reached_events");
                } else if s.event == Event::LimitReached {
                    return Err(format!("machine {mi}: LimitReached raised twice for one completion"));
                }
                match s.target {
                    None => {}
                    Some(t) if t == STATE_SIGNAL => {}
                    Some(t) if t == STATE_END => {
                        self.m[mi].cur = STATE_END;
                        if !closed {
                            changed = true;
                        }
                    }
                    Some(t) => {
                        let st = &mut self.m[mi];
                        if t != s.from_state {
                            st.cur = t;
                            st.rem = fresh(mach, t);
                            st.unknown_dec = 0;
                            if !closed {
                                changed = true;
                            }
                            stay_id[mi] += 1;
                            stats.bump("stays_begun");
                        }
                        let could = st.rem.map(|r| r > 0);
                        if could != Some(false) {
                            cands[mi].push((t, could, st.unknown_dec, stay_id[mi]));
                        } else {
                            stats.bump("entries_with_limit_exhausted_or_zero");
                            engaged = true;
                        }
                    }
                }
            }
            if !closed {
                let expect = close_completion(d, top_live, changed, mach, &mut self.m[mi], stats);
                if let Lr::Yes = expect {
                    return Err(format!(
                        "machine {mi}: the limit of its stay in state {} is consumed by this completion ({:?}) but no LimitReached was raised",
                        self.m[mi].cur, d.event
                    ));
                }
            }
        }
        // resolve unknown sampled limits from the snapshot
        for i in 0..n {
            let was_unknown = self.m[i].rem.is_none();
            let dec = self.m[i].unknown_dec;
            adopt(&c.cfg.machines[i], &mut self.m[i], c.after.machines[i].1, i)?;
            if was_unknown {
                if let Some(r) = self.m[i].rem {
                    let l0 = r.saturating_add(dec); // the sampled L of this stay (when r > 0), or <= dec
                    for cd in cands[i].iter_mut() {
                        if cd.1.is_none() && cd.0 == self.m[i].cur && cd.3 == stay_id[i] {
                            cd.1 = Some(if r > 0 { l0 > cd.2 } else { dec > cd.2 });
                        }
                    }
                }
            }
        }
        // returned limited actions must originate from a state that could schedule
        for a in c.actions {
            let mi = a.machine();
            if mi >= n || matches!(a, Act::Cancel { .. }) {
                continue;
            }
            let mach = &c.cfg.machines[mi];
            let origins: Vec<usize> = (0..mach.states.len()).filter(|s| mach.states[*s].action.map(|x| action_matches(&x, a)).unwrap_or(false)).collect();
            if origins.is_empty() {
                continue; // C04's business
            }
            let ok = origins.iter().any(|o| cands[mi].iter().any(|(s, could, _, _)| s == o && *could != Some(false)));
            if !ok {
                return Err(format!(
                    "machine {mi}: action {a:?} (defined in state(s) {origins:?}) was returned although in this call no transition into such a state happened with limit remaining and after the last LimitReached (limit per property now {:?} in state {})",
                    self.m[mi].rem, self.m[mi].cur
                ));
            }
            if has_limit(&mach.states[origins[0]].action.unwrap()) {
                stats.bump("limited_actions_returned");
            }
        }
        // withdrawal comes first, LimitReached second: what the machine schedules in response to
        // LimitReached (the action of the state it moves to) is not withdrawn
        for mi in 0..n {
            let mach = &c.cfg.machines[mi];
            let Some(d) = dl.iter().filter(|d| d.machine == mi).last() else { continue };
            let k = d.end - 1;
            let s = &c.steps[k];
            if k == d.start || !s.live || s.event != Event::LimitReached {
                continue;
            }
            let Some(t) = s.target else { continue };
            if t == STATE_END || t == STATE_SIGNAL || t == s.from_state {
                continue;
            }
            let Some(a) = mach.states[t].action else { continue };
            let could = cands[mi].iter().rev().find(|cd| cd.0 == t && cd.3 == stay_id[mi]).map(|cd| cd.1);
            if could != Some(Some(true)) {
                continue;
            }
            let snap = &c.after.machines[mi];
            let within_budget = match a {
                Action::SendPadding { .. } => snap.2 < mach.allowed_padding_packets,
                Action::BlockOutgoing { .. } => {
                    let ongoing = if c.after.blocking_active { c.now.saturating_sub(c.after.blocking_started.0) } else { 0 };
                    snap.4 .0.saturating_add(ongoing) < mach.allowed_blocked_microsec
                }
                _ => true,
            };
            if !within_budget {
                continue;
            }
            if !c.actions.iter().any(|r| r.machine() == mi && action_matches(&a, r)) {
                return Err(format!(
                    "machine {mi}: LimitReached moved it to state {t}, whose action {a:?} is within its limit and budget, but the call returned {:?} for it: the action scheduled in response to LimitReached was withdrawn too",
                    c.actions.iter().filter(|r| r.machine() == mi).collect::<Vec<_>>()
                ));
            }
            stats.bump("actions_scheduled_by_limit_reached_returned");
        }
        Ok(engaged)
    }
    fn key(&self, out: &mut String) {
        for s in &self.m {
            out.push_str(&format!("|{},{:?}", s.cur, s.rem));
        }
    }
}

enum Lr {
    Yes,
    No,
    Maybe,
}
/// Account an own completion; says whether LimitReached must follow.
fn close_completion(d: &Delivery, top_live: bool, changed: bool, mach: &Machine, st: &mut MSt, stats: &mut Stats) -> Lr {
    if !d.own_completion || !top_live || changed || st.cur == STATE_END {
        return Lr::No;
    }
    stats.bump("own_completions_without_state_change");
    let limited = mach.states[st.cur].action.map(|a| has_limit(&a)).unwrap_or(false);
    match st.rem {
        Some(r) => {
            let r2 = r.saturating_sub(1);
            st.rem = Some(r2);
            if limited && r2 == 0 {
                Lr::Yes
            } else {
                Lr::No
            }
        }
        None => {
            st.unknown_dec += 1;
            if limited {
                Lr::Maybe
            } else {
                Lr::No
            }
        }
    }
}

fn alphabet(n: usize, pairs: bool) -> Alphabet {
    use TriggerEvent as T;
    let mut ev = vec![T::NormalRecv, T::NormalSent, T::TunnelRecv, T::PaddingRecv];
    for id in 0..=n {
        ev.push(T::PaddingSent { machine: mid(id) });
        ev.push(T::BlockingBegin { machine: mid(id) });
        ev.push(T::TimerBegin { machine: mid(id) });
    }
    let mut b: Vec<Vec<T>> = ev.iter().map(|e| vec![e.clone()]).collect();
    if pairs {
        for x in &ev {
            for y in &ev {
                b.push(vec![x.clone(), y.clone()]);
            }
        }
    }
    Alphabet { batches: b, deltas: vec![0] }
}

pub fn plans(ctx: &WorkerCtx) -> Vec<Plan> {
    let q = ctx.quick();
    let lim = fam::p_lim();
    let fr = [(0.0, 0.0)];
    let base = Opts { n32: 2, n64: 3, ..Default::default() };
    let mut v = vec![];
    v.push(Plan { name: "one limiter, single events".into(), cfgs: fam::singles(&lim, &fr), alpha_for: Box::new(|c: &Cfg| alphabet(c.machines.len(), false)), opts: Opts { depth: if q { 6 } else { 8 }, ..base.clone() }, walk: None });
    v.push(Plan { name: "one limiter, all pairs of events as batches".into(), cfgs: fam::singles(&lim, &fr), alpha_for: Box::new(|c: &Cfg| alphabet(c.machines.len(), true)), opts: Opts { depth: if q { 3 } else { 4 }, ..base.clone() }, walk: None });
    let sub: Vec<_> = lim.iter().step_by(if q { 5 } else { 2 }).cloned().collect();
    let other: Vec<_> = lim.iter().skip(3).step_by(if q { 17 } else { 7 }).cloned().collect();
    let mut two = fam::all_pairs(&sub, &other, &fr);
    two.extend(fam::all_pairs(&other, &sub, &fr).into_iter().step_by(2));
    v.push(Plan { name: "two limiters (completions for the other machine and unknown ids)".into(), cfgs: two, alpha_for: Box::new(|c: &Cfg| alphabet(c.machines.len(), false)), opts: Opts { depth: if q { 4 } else { 6 }, ..base.clone() }, walk: None });
    // limits inside general machines, with tight padding budgets around them
    let g2: Vec<_> = fam::g2(if q { 1499 } else { 149 }, 3).into_iter().filter(|(_, m)| m.states.iter().any(|s| s.action.map(|a| has_limit(&a)).unwrap_or(false))).collect();
    v.push(Plan { name: "G2 machines with limited actions (tight budgets, counters, signals around the limit)".into(), cfgs: fam::singles(&g2, &[(0.5, 0.5)]), alpha_for: Box::new(|c: &Cfg| Alphabet { batches: all_single_events(c.machines.len(), false).into_iter().map(|e| vec![e]).collect(), deltas: vec![0] }), opts: Opts { depth: if q { 4 } else { 6 }, ..base.clone() }, walk: None });
    v.push(Plan { name: "G2 pairs with limited actions".into(), cfgs: fam::pairs_strided(&g2, 31, 7, &[(0.5, 0.5), (0.0, 0.0)]), alpha_for: Box::new(|c: &Cfg| Alphabet { batches: all_single_events(c.machines.len(), false).into_iter().map(|e| vec![e]).collect(), deltas: vec![0] }), opts: Opts { depth: if q { 3 } else { 4 }, ..base.clone() }, walk: None });
    let corp = fam::corpus(ctx.seed.wrapping_add(51), if q { 150 } else { 1500 });
    v.push(Plan { name: "corpus of generated 3-6 state machines (sampled), singles and pairs: BFS plus long random walks".into(), cfgs: { let mut c = fam::singles(&corp, &[(0.5, 0.5)]); c.extend(fam::pairs_strided(&corp, 31, 7, &[(0.0, 0.0), (0.5, 0.5)])); c }, alpha_for: Box::new(|c: &Cfg| super::c05::alphabet(c.machines.len(), vec![0], false)), opts: Opts { depth: if q { 1 } else { 2 }, ..base.clone() }, walk: Some((if q { 3 } else { 6 }, 300)) });
    v
}

pub const RULE: &str = "every call (single events and all ordered pairs of events) on the real Framework from every explored state, every outcome of every limit draw; the observer tracks the remaining limit per stay as the property prescribes and checks LimitReached, withdrawal and the origin of every returned limited action against the step log. distinct_nontrivial = distinct product states first reached by a call in which LimitReached was raised or a state was (re-)entered with its limit zero or exhausted";

pub fn worker(ctx: &WorkerCtx) -> WorkerOut {
    let s = run_e1::<Obs>("C07", plans(ctx), ctx, RULE);
    let vacuous = if s.nontrivial_states < 200 && ctx.only_unit.is_none() && s.reported.is_empty() { Some(format!("only {} non-trivial states", s.nontrivial_states)) } else { None };
    WorkerOut {
        level: "model_checking",
        coverage: s.coverage,
        assumptions: vec!["limit distributions: none, constant 0/1/2/3, Uniform[0,2]; the hook step log is trusted to report internal events, the snapshot to reveal a sampled limit".into()],
        reported: s.reported,
        vacuous,
    }
}
pub fn replay(v: &Value) -> Result<Option<String>, String> {
    replay_e1::<Obs>(v, false)
}
pub fn action_matches_pub(a: &Action, r: &Act) -> bool {
    action_matches(a, r)
}
