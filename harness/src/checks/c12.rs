//! C12 (engine E3) — validation is sound: bounded-exhaustive enumeration of
//! machines assembled through the public constructors / public fields with
//! adversarial numbers in every numeric slot and structural faults. For each
//! candidate the four judgements `Machine::new`, `validate()` on the literal,
//! `Framework::new` and `from_str(serialize())` must agree, and an accepted
//! machine must satisfy an independent well-formedness predicate and be runnable.
use super::*;
use crate::fam::{c, st_map, u};
use crate::rng::WordRng;
use enum_map::{enum_map, EnumMap};
use maybenot::action::{Action, Timer};
use maybenot::constants::{STATE_END, STATE_MAX, STATE_SIGNAL};
use maybenot::counter::{Counter, Operation};
use maybenot::dist::{Dist, DistType, DIST_MIN_PROBABILITY};
use maybenot::event::{Event, TriggerEvent};
use maybenot::state::Trans;
use maybenot::{Framework, Machine};
use std::str::FromStr;
use std::sync::atomic::{AtomicUsize, Ordering};

fn next_up(x: f64) -> f64 {
    if x.is_nan() || x == f64::INFINITY {
        return x;
    }
    if x == 0.0 {
        return f64::from_bits(1);
    }
    let b = x.to_bits();
    f64::from_bits(if x > 0.0 { b + 1 } else { b - 1 })
}
fn next_down(x: f64) -> f64 {
    -next_up(-x)
}
pub fn corners() -> Vec<f64> {
    vec![
        f64::NAN,
        -f64::NAN,
        f64::INFINITY,
        f64::NEG_INFINITY,
        -0.0,
        0.0,
        f64::from_bits(1),
        f64::MIN_POSITIVE,
        next_down(1.0),
        1.0,
        next_up(1.0),
        -f64::from_bits(1),
        0.5,
        2.0,
        -1.0,
        1e-9,
        next_down(1e-9),
        1e9,
        next_up(1e9),
        1e42,
        next_up(1e42),
        f64::MAX,
    ]
}

/// Distribution of family `ty` with default valid parameters, then slot `slot` (0,1,2 = parameters,
/// 3 = start, 4 = max) overwritten by `v`. Returns None if the family has no such parameter slot.
pub fn dist_with(ty: usize, slot: usize, v: f64) -> Option<Dist> {
    let mut p = match ty {
        0 => [1.0, 2.0, 0.0],   // Uniform low, high
        1 => [1.0, 1.0, 0.0],   // Normal mean, stdev
        2 => [1.0, 1.0, 1.0],   // SkewNormal location, scale, shape
        3 => [0.5, 0.5, 0.0],   // LogNormal mu, sigma
        4 => [10.0, 0.5, 0.0],  // Binomial trials, probability
        5 => [0.5, 0.0, 0.0],   // Geometric probability
        6 => [1.0, 2.0, 0.0],   // Pareto scale, shape
        7 => [2.0, 0.0, 0.0],   // Poisson lambda
        8 => [1.0, 1.5, 0.0],   // Weibull scale, shape
        9 => [1.0, 2.0, 0.0],   // Gamma scale, shape
        _ => [2.0, 2.0, 0.0],   // Beta alpha, beta
    };
    let nparams = match ty {
        2 => 3,
        5 | 7 => 1,
        _ => 2,
    };
    let (mut start, mut max) = (0.0, 0.0);
    match slot {
        0..=2 => {
            if slot >= nparams {
                return None;
            }
            p[slot] = v;
        }
        3 => start = v,
        _ => max = v,
    }
    let d = match ty {
        0 => DistType::Uniform { low: p[0], high: p[1] },
        1 => DistType::Normal { mean: p[0], stdev: p[1] },
        2 => DistType::SkewNormal { location: p[0], scale: p[1], shape: p[2] },
        3 => DistType::LogNormal { mu: p[0], sigma: p[1] },
        4 => {
            // trials is an integer field: corner values are cast (saturating), non-finite ones skipped
            if slot == 0 && !p[0].is_finite() {
                return None;
            }
            DistType::Binomial { trials: p[0] as u64, probability: p[1] }
        }
        5 => DistType::Geometric { probability: p[0] },
        6 => DistType::Pareto { scale: p[0], shape: p[1] },
        7 => DistType::Poisson { lambda: p[0] },
        8 => DistType::Weibull { scale: p[0], shape: p[1] },
        9 => DistType::Gamma { scale: p[0], shape: p[1] },
        _ => DistType::Beta { alpha: p[0], beta: p[1] },
    };
    Some(Dist { dist: d, start, max })
}
/// third slot of a triple: only start (3) and max (4) are patched onto an already built pair
pub fn dist_with_on(mut d: Dist, s3: usize, z: f64) -> Option<Dist> {
    match s3 {
        3 => { d.start = z; Some(d) }
        4 => { d.max = z; Some(d) }
        _ => None,
    }
}
pub fn dist_with2(ty: usize, s1: usize, v1: f64, s2: usize, v2: f64) -> Option<Dist> {
    // two slots: build with s1 then patch s2 by rebuilding through the same table
    let a = dist_with(ty, s1, v1)?;
    let b = dist_with(ty, s2, v2)?;
    // merge: take b's changed slot onto a
    let mut d = a;
    match s2 {
        3 => d.start = b.start,
        4 => d.max = b.max,
        _ => {
            // parameters: re-derive by constructing with both
            let get = |x: &Dist| -> [f64; 3] {
                match x.dist {
                    DistType::Uniform { low, high } => [low, high, 0.0],
                    DistType::Normal { mean, stdev } => [mean, stdev, 0.0],
                    DistType::SkewNormal { location, scale, shape } => [location, scale, shape],
                    DistType::LogNormal { mu, sigma } => [mu, sigma, 0.0],
                    DistType::Binomial { trials, probability } => [trials as f64, probability, 0.0],
                    DistType::Geometric { probability } => [probability, 0.0, 0.0],
                    DistType::Pareto { scale, shape } => [scale, shape, 0.0],
                    DistType::Poisson { lambda } => [lambda, 0.0, 0.0],
                    DistType::Weibull { scale, shape } => [scale, shape, 0.0],
                    DistType::Gamma { scale, shape } => [scale, shape, 0.0],
                    DistType::Beta { alpha, beta } => [alpha, beta, 0.0],
                }
            };
            let mut pa = get(&a);
            pa[s2] = get(&b)[s2];
            let mut r = dist_with(ty, 0, pa[0])?;
            for k in 1..3 {
                if let Some(x) = dist_with(ty, k, pa[k]) {
                    let px = get(&x);
                    let mut pr = get(&r);
                    pr[k] = px[k];
                    // rebuild r with pr
                    r = rebuild(ty, pr)?;
                }
            }
            d.dist = r.dist;
        }
    }
    Some(d)
}
fn rebuild(ty: usize, p: [f64; 3]) -> Option<Dist> {
    let d = match ty {
        0 => DistType::Uniform { low: p[0], high: p[1] },
        1 => DistType::Normal { mean: p[0], stdev: p[1] },
        2 => DistType::SkewNormal { location: p[0], scale: p[1], shape: p[2] },
        3 => DistType::LogNormal { mu: p[0], sigma: p[1] },
        4 => {
            if !p[0].is_finite() {
                return None;
            }
            DistType::Binomial { trials: p[0] as u64, probability: p[1] }
        }
        5 => DistType::Geometric { probability: p[0] },
        6 => DistType::Pareto { scale: p[0], shape: p[1] },
        7 => DistType::Poisson { lambda: p[0] },
        8 => DistType::Weibull { scale: p[0], shape: p[1] },
        9 => DistType::Gamma { scale: p[0], shape: p[1] },
        _ => DistType::Beta { alpha: p[0], beta: p[1] },
    };
    Some(Dist { dist: d, start: 0.0, max: 0.0 })
}

/// A machine literal (NOT validated) with distribution `d` in position `pos`:
/// 0 padding timeout, 1 blocking duration, 2 limit, 3 counter A value, 4 counter B value, 5 timer duration, 6 blocking timeout
pub fn literal_with_dist(pos: usize, d: Dist) -> Machine {
    use Event::*;
    // positions NPOS..2*NPOS: the same, with the state that carries the distribution being a sink (no transitions)
    let (sink, pos) = (pos >= NPOS, pos % NPOS);
    let t: EnumMap<Event, Vec<Trans>> = enum_map! { NormalSent => vec![Trans(1, 1.0)], NormalRecv => vec![Trans(0, 0.5), Trans(1, 0.25)], _ => vec![] };
    let (a, ctr): (Option<Action>, (Option<Counter>, Option<Counter>)) = match pos {
        0 => (Some(Action::SendPadding { bypass: false, replace: false, timeout: d, limit: None }), (None, None)),
        1 => (Some(Action::BlockOutgoing { bypass: false, replace: false, timeout: c(1.0), duration: d, limit: None }), (None, None)),
        2 => (Some(Action::SendPadding { bypass: true, replace: true, timeout: c(1.0), limit: Some(d) }), (None, None)),
        3 => (Some(Action::Cancel { timer: Timer::All }), (Some(Counter::new_dist(Operation::Increment, d)), None)),
        4 => (None, (None, Some(Counter::new_dist(Operation::Set, d)))),
        5 => (Some(Action::UpdateTimer { replace: true, duration: d, limit: Some(u(0.0, 2.0)) }), (None, None)),
        6 => (Some(Action::BlockOutgoing { bypass: true, replace: true, timeout: d, duration: c(2.0), limit: Some(c(1.0)) }), (None, None)),
        // two optional fields of one state set together: the candidate next to a valid sibling
        7 => (None, (Some(Counter::new_dist(Operation::Decrement, c(1.0))), Some(Counter::new_dist(Operation::Increment, d)))),
        8 => (None, (Some(Counter::new_dist(Operation::Decrement, d)), Some(Counter::new_dist(Operation::Increment, c(1.0))))),
        9 => (Some(Action::SendPadding { bypass: false, replace: false, timeout: c(1.0), limit: Some(c(2.0)) }), (Some(Counter::new(Operation::Increment)), Some(Counter::new_dist(Operation::Set, d)))),
        10 => (Some(Action::BlockOutgoing { bypass: false, replace: false, timeout: c(1.0), duration: c(1.0), limit: Some(d) }), (Some(Counter::new_copy(Operation::Set)), None)),
        // a distribution carried by a counter whose copy flag is set (public fields): never sampled, still part of the machine
        12 => (None, (Some(Counter { operation: Operation::Increment, dist: Some(d), copy: true }), None)),
        13 => (Some(Action::Cancel { timer: Timer::Internal }), (Some(Counter::new(Operation::Set)), Some(Counter { operation: Operation::Decrement, dist: Some(d), copy: true }))),
        _ => (Some(Action::UpdateTimer { replace: false, duration: c(1.0), limit: Some(d) }), (None, Some(Counter::new_copy(Operation::Set)))),
    };
    let t1 = if sink { enum_map! { _ => vec![] } } else { t.clone() };
    Machine { allowed_padding_packets: 1, max_padding_frac: 0.5, allowed_blocked_microsec: 10, max_blocking_frac: 0.5, states: vec![st_map(t, None, (None, None)), st_map(t1, a, ctr)] }
}
pub const NPOS: usize = 14;
pub fn literal_with_fracs(pf: f64, bf: f64) -> Machine {
    let mut m = literal_with_dist(0, c(1.0));
    m.max_padding_frac = pf;
    m.max_blocking_frac = bf;
    m
}
pub fn literal_with_trans(v: Vec<Trans>, nstates: usize) -> Machine {
    let mut t: EnumMap<Event, Vec<Trans>> = enum_map! { _ => vec![] };
    t[Event::TunnelRecv] = v;
    let t1: EnumMap<Event, Vec<Trans>> = enum_map! { Event::NormalSent => vec![Trans(0, 1.0)], _ => vec![] };
    let mut states = vec![];
    for i in 0..nstates {
        states.push(st_map(if i == 0 { t.clone() } else { t1.clone() }, Some(Action::Cancel { timer: Timer::Action }), (None, None)));
    }
    Machine { allowed_padding_packets: 0, max_padding_frac: 0.0, allowed_blocked_microsec: 0, max_blocking_frac: 0.0, states }
}

// ---------------------------------------------------------------------------
// independent well-formedness predicate
// ---------------------------------------------------------------------------
fn prob_ok(p: f64) -> bool {
    !p.is_nan() && (0.0..=1.0).contains(&p) && (p == 0.0 || p >= DIST_MIN_PROBABILITY)
}
pub fn dist_wellformed(d: &Dist) -> Result<(), String> {
    let pos = |x: f64| x > 0.0;
    let ok = match d.dist {
        DistType::Uniform { low, high } => low.is_finite() && high.is_finite() && low <= high && (high - low).is_finite(),
        DistType::Normal { stdev, .. } => stdev.is_finite(),
        DistType::SkewNormal { scale, shape, .. } => pos(scale) && scale.is_finite() && shape.is_finite(),
        DistType::LogNormal { sigma, .. } => sigma.is_finite(),
        DistType::Binomial { trials, probability } => prob_ok(probability) && trials <= 1_000_000_000,
        DistType::Geometric { probability } => prob_ok(probability),
        DistType::Pareto { scale, shape } => pos(scale) && pos(shape),
        DistType::Poisson { lambda } => pos(lambda) && lambda <= 1e42,
        DistType::Weibull { scale, shape } => pos(scale) && pos(shape),
        DistType::Gamma { scale, shape } => pos(scale) && pos(shape),
        DistType::Beta { alpha, beta } => pos(alpha) && pos(beta),
    };
    if ok {
        Ok(())
    } else {
        Err(format!("distribution with parameters outside their domain: {:?}", d.dist))
    }
}
pub fn wellformed(m: &Machine) -> Result<(), String> {
    for (n, f) in [("max_padding_frac", m.max_padding_frac), ("max_blocking_frac", m.max_blocking_frac)] {
        if f.is_nan() || !(0.0..=1.0).contains(&f) {
            return Err(format!("{n} = {f} is not a real number in [0,1]"));
        }
    }
    if m.states.is_empty() {
        return Err("no states".into());
    }
    for (si, s) in m.states.iter().enumerate() {
        for (e, v) in s.get_transitions() {
            let mut seen = std::collections::BTreeSet::new();
            let mut sum = 0f64;
            for t in &v {
                if t.0 >= m.states.len() && t.0 != STATE_END && t.0 != STATE_SIGNAL {
                    return Err(format!("state {si} event {e:?}: target {} does not exist", t.0));
                }
                if !seen.insert(t.0) {
                    return Err(format!("state {si} event {e:?}: duplicate target {}", t.0));
                }
                if t.1.is_nan() || !(t.1 > 0.0 && t.1 <= 1.0) {
                    return Err(format!("state {si} event {e:?}: probability {} is not a real number in (0,1]", t.1));
                }
                sum += t.1 as f64;
            }
            // `sum` is exact (f64 holds the sum of a few f32 values exactly). An implementation summing in f32 rounds
            // each partial sum by at most half an ulp of [1,2), i.e. 2^-24: an exact sum above 1 + (len-1) * 2^-24 is
            // above 1 however it is accumulated; below that (e.g. 1 + 1e-9) it may legitimately round to exactly 1
            if sum > 1.0 + (v.len().saturating_sub(1) as f64) * (f32::EPSILON as f64 / 2.0) {
                return Err(format!("state {si} event {e:?}: probabilities sum to {sum} > 1"));
            }
        }
        let mut ds: Vec<Dist> = vec![];
        match s.action {
            Some(Action::SendPadding { timeout, limit, .. }) => {
                ds.push(timeout);
                ds.extend(limit);
            }
            Some(Action::BlockOutgoing { timeout, duration, limit, .. }) => {
                ds.push(timeout);
                ds.push(duration);
                ds.extend(limit);
            }
            Some(Action::UpdateTimer { duration, limit, .. }) => {
                ds.push(duration);
                ds.extend(limit);
            }
            _ => {}
        }
        for cn in [&s.counter.0, &s.counter.1].into_iter().flatten() {
            ds.extend(cn.dist);
        }
        for d in ds {
            dist_wellformed(&d).map_err(|e| format!("state {si}: {e}"))?;
        }
    }
    Ok(())
}

// ---------------------------------------------------------------------------
// judging one candidate
// ---------------------------------------------------------------------------
pub struct Verdicts {
    pub new: bool,
    pub validate: bool,
    pub framework: bool,
    pub roundtrip: bool,
}
pub fn judgements(m: &Machine) -> Result<Verdicts, String> {
    let g = |f: &mut dyn FnMut() -> bool, what: &str| -> Result<bool, String> {
        match std::panic::catch_unwind(std::panic::AssertUnwindSafe(|| f())) {
            Ok(b) => Ok(b),
            Err(_) => Err(format!("{what} panicked: {}", crate::explore::last_panic())),
        }
    };
    let new = g(&mut || Machine::new(m.allowed_padding_packets, m.max_padding_frac, m.allowed_blocked_microsec, m.max_blocking_frac, m.states.clone()).is_ok(), "Machine::new")?;
    let validate = g(&mut || m.validate().is_ok(), "Machine::validate")?;
    let framework = g(&mut || Framework::new(std::slice::from_ref(m), 0.0, 0.0, std::time::Instant::now(), WordRng::new(&[], 1)).is_ok(), "Framework::new")?;
    let roundtrip = g(&mut || Machine::from_str(&m.serialize()).is_ok(), "Machine::from_str(serialize())")?;
    Ok(Verdicts { new, validate, framework, roundtrip })
}

pub fn judge(m: &Machine) -> Result<bool, String> {
    let v = judgements(m)?;
    if !(v.new == v.validate && v.validate == v.framework && v.framework == v.roundtrip) {
        return Err(format!("the four judgements disagree: Machine::new accepts={}, validate()={}, Framework::new={}, from_str(serialize())={}", v.new, v.validate, v.framework, v.roundtrip));
    }
    if !v.validate {
        return Ok(false);
    }
    wellformed(m).map_err(|e| format!("accepted by validation but not well-formed: {e}"))?;
    drive(m)?;
    Ok(true)
}

/// Framework fractions in [0,1] never fail for an accepted machine, and it can be run.
pub fn drive(m: &Machine) -> Result<(), String> {
    for (pf, bf) in [(0.0, 0.0), (1.0, 1.0), (0.5, 0.25)] {
        let r = std::panic::catch_unwind(std::panic::AssertUnwindSafe(|| -> Result<(), String> {
            let mut rng = WordRng::new(&[], 7);
            rng.cap = 200_000;
            let mut f = Framework::new(std::slice::from_ref(m), pf, bf, std::time::Instant::now(), rng).map_err(|e| format!("Framework::new({pf},{bf}) failed for an accepted machine: {:?}", e))?;
            let t = std::time::Instant::now();
            let mid = maybenot::MachineId::from_raw(0);
            for e in [TriggerEvent::NormalSent, TriggerEvent::NormalRecv, TriggerEvent::TunnelRecv, TriggerEvent::PaddingSent { machine: mid }, TriggerEvent::BlockingBegin { machine: mid }, TriggerEvent::NormalSent, TriggerEvent::TimerBegin { machine: mid }, TriggerEvent::BlockingEnd, TriggerEvent::NormalRecv, TriggerEvent::NormalSent] {
                let _ = f.trigger_events(&[e], t).count();
            }
            Ok(())
        }));
        match r {
            Ok(Ok(())) => {}
            Ok(Err(e)) => return Err(e),
            Err(_) => return Err(format!("an accepted machine cannot be run: {}", crate::explore::last_panic())),
        }
    }
    Ok(())
}

pub struct Cand {
    pub label: String,
    pub m: Machine,
}

pub fn candidates(q: bool) -> Vec<Cand> {
    let cs = corners();
    let mut v = vec![];
    // fractions
    for a in &cs {
        v.push(Cand { label: format!("max_padding_frac={a:?}"), m: literal_with_fracs(*a, 0.5) });
        v.push(Cand { label: format!("max_blocking_frac={a:?}"), m: literal_with_fracs(0.5, *a) });
        if !q {
            for b in &cs {
                v.push(Cand { label: format!("fracs=({a:?},{b:?})"), m: literal_with_fracs(*a, *b) });
            }
        }
    }
    // every distribution parameter / start / max in every position
    for ty in 0..11 {
        for slot in 0..5 {
            for x in &cs {
                for pos in 0..2 * NPOS {
                    if let Some(d) = dist_with(ty, slot, *x) {
                        v.push(Cand { label: format!("dist family {ty} slot {slot} = {x:?} in position {pos}"), m: literal_with_dist(pos, d) });
                    }
                }
            }
        }
        // all corner pairs (both tiers)
        {
            for s1 in 0..5 {
                for s2 in (s1 + 1)..5 {
                    for x in &cs {
                        for y in &cs {
                            if let Some(d) = dist_with2(ty, s1, *x, s2, *y) {
                                v.push(Cand { label: format!("dist family {ty} slots ({s1},{s2}) = ({x:?},{y:?})"), m: literal_with_dist((s1 + s2 + ty) % NPOS, d) });
                            }
                        }
                    }
                }
            }
        }
    }
    // pairs of parameter slots both set to an extreme (e.g. both bounds the same infinity); thorough: triples as well
    {
        let ext = [f64::NAN, f64::INFINITY, f64::NEG_INFINITY, 0.0, -0.0, f64::MAX, -f64::MAX, f64::from_bits(1)];
        for ty in 0..11 {
            for s1 in 0..5 {
                for s2 in (s1 + 1)..5 {
                    for x in &ext {
                        for y in &ext {
                            if let Some(d) = dist_with2(ty, s1, *x, s2, *y) {
                                v.push(Cand { label: format!("dist family {ty} slots ({s1},{s2}) = ({x:?},{y:?})"), m: literal_with_dist((s1 + s2 + ty) % NPOS, d) });
                            }
                        }
                    }
                }
            }
        }
    }
    if !q {
        let ext = [f64::NAN, f64::INFINITY, f64::NEG_INFINITY, 0.0, -0.0, f64::MAX, -f64::MAX, f64::from_bits(1), 1.0, -1.0];
        for ty in 0..11 {
            for s1 in 0..5 {
                for s2 in (s1 + 1)..5 {
                    for s3 in (s2 + 1)..5 {
                        for x in &ext {
                            for y in &ext {
                                for z in &ext {
                                    if let Some(d) = dist_with2(ty, s1, *x, s2, *y) {
                                        if let Some(d) = dist_with_on(d, s3, *z) {
                                            v.push(Cand { label: format!("dist family {ty} slots ({s1},{s2},{s3}) = ({x:?},{y:?},{z:?})"), m: literal_with_dist((s1 + s2 + s3 + ty) % NPOS, d) });
                                        }
                                    }
                                }
                            }
                        }
                    }
                }
            }
        }
    }
    // Binomial trials around the bound, and far above it with small low 32 bits
    for tr in [0u64, 1, 999_999_999, 1_000_000_000, 1_000_000_001, u32::MAX as u64, 1 << 32, (1 << 32) + 1, (1 << 33) + 123_456_789, 0xFFFF_FFFF_0000_0000, 1 << 63, u64::MAX] {
        for p in [0.0, 1.0, 0.5, 1e-9] {
            v.push(Cand { label: format!("Binomial trials={tr} p={p}"), m: literal_with_dist(0, Dist { dist: DistType::Binomial { trials: tr, probability: p }, start: 0.0, max: 0.0 }) });
        }
    }
    // transition probabilities and sums
    let f32c: Vec<f32> = vec![f32::NAN, -f32::NAN, f32::INFINITY, f32::NEG_INFINITY, -0.0, 0.0, f32::from_bits(1), f32::MIN_POSITIVE, 1.0 - f32::EPSILON / 2.0, 1.0, 1.0 + f32::EPSILON, -f32::from_bits(1), 0.5, 2.0, -1.0, 1.0 / 3.0];
    for p in &f32c {
        v.push(Cand { label: format!("single transition probability {p:?}"), m: literal_with_trans(vec![Trans(1, *p)], 2) });
        for p2 in &f32c {
            v.push(Cand { label: format!("two transition probabilities ({p:?},{p2:?})"), m: literal_with_trans(vec![Trans(1, *p), Trans(0, *p2)], 2) });
            {
                for p3 in &f32c {
                    v.push(Cand { label: format!("three transition probabilities ({p:?},{p2:?},{p3:?})"), m: literal_with_trans(vec![Trans(1, *p), Trans(0, *p2), Trans(STATE_END, *p3)], 2) });
                }
            }
        }
    }
    let third = 1.0f32 / 3.0;
    for (l, vec) in [
        ("3 x 1/3", vec![Trans(0, third), Trans(1, third), Trans(2, third)]),
        ("sum 1+ulp", vec![Trans(0, 0.5), Trans(1, 0.5 + f32::EPSILON)]),
        ("sum 1-ulp", vec![Trans(0, 0.5), Trans(1, 0.5 - f32::EPSILON / 2.0)]),
        ("sum 2", vec![Trans(0, 1.0), Trans(1, 1.0)]),
        ("sum 1 + tiny", vec![Trans(0, 1.0), Trans(1, 1e-9)]),
        ("ten tenths", (0..10).map(|i| Trans(i, 0.1)).collect()),
        ("eleven tenths", (0..11).map(|i| Trans(i, 0.1)).collect()),
    ] {
        v.push(Cand { label: format!("probability vector {l}"), m: literal_with_trans(vec, 12) });
    }
    // structural faults
    v.push(Cand { label: "no states".into(), m: Machine { allowed_padding_packets: 0, max_padding_frac: 0.0, allowed_blocked_microsec: 0, max_blocking_frac: 0.0, states: vec![] } });
    for n in 1..=3usize {
        for t in [0, n - 1, n, n + 1, STATE_MAX, STATE_END, STATE_SIGNAL, usize::MAX] {
            v.push(Cand { label: format!("{n} states, target {t}"), m: literal_with_trans(vec![Trans(t, 0.5)], n) });
            v.push(Cand { label: format!("{n} states, duplicate target {t}"), m: literal_with_trans(vec![Trans(t, 0.25), Trans(0, 0.25), Trans(t, 0.25)], n) });
        }
    }
    // limit distributions that must be validated too, invalid dists hidden behind every optional field
    let bad = Dist { dist: DistType::Uniform { low: 2.0, high: 1.0 }, start: 0.0, max: 0.0 };
    for pos in 0..2 * NPOS {
        v.push(Cand { label: format!("invalid Uniform(low>high) in position {pos}"), m: literal_with_dist(pos, bad) });
    }
    v
}

pub fn worker(ctx: &WorkerCtx) -> WorkerOut {
    let q = ctx.quick();
    let cands = candidates(q);
    let next = AtomicUsize::new(0);
    let crumbs = crate::supervise::global_crumbs();
    let fine = crate::supervise::global_fine();
    const CH: usize = 64;
    let nch = (cands.len() + CH - 1) / CH;
    let parts: Vec<(u64, u64, Vec<(usize, String)>)> = std::thread::scope(|sc| {
        let hs: Vec<_> = (0..ctx.threads())
            .map(|ti| {
                let (next, cands) = (&next, &cands);
                sc.spawn(move || {
                    let (mut acc, mut rej, mut fails) = (0u64, 0u64, vec![]);
                    loop {
                        let ci = next.fetch_add(1, Ordering::Relaxed);
                        if ci >= nch {
                            break;
                        }
                        if let Some(u) = ctx.only_unit {
                            if u != ci as u64 {
                                continue;
                            }
                        }
                        if let Some(c) = crumbs {
                            c.set(ti, ci as u64);
                        }
                        for i in ci * CH..((ci + 1) * CH).min(cands.len()) {
                            if let Some(fc) = fine {
                                fc.write(&json!({"property": "C12", "engine": "E3", "candidate": cands[i].label, "machine_debug": format!("{:?}", cands[i].m), "message": "worker died while judging this candidate"}));
                            }
                            match judge(&cands[i].m) {
                                Ok(true) => acc += 1,
                                Ok(false) => rej += 1,
                                Err(e) => fails.push((i, e)),
                            }
                        }
                    }
                    if let Some(c) = crumbs {
                        c.set(ti, u64::MAX);
                    }
                    (acc, rej, fails)
                })
            })
            .collect();
        hs.into_iter().map(|h| h.join().unwrap()).collect()
    });
    let (mut acc, mut rej) = (0u64, 0u64);
    let mut fails = vec![];
    for (a, r, f) in parts {
        acc += a;
        rej += r;
        fails.extend(f);
    }
    fails.sort_by_key(|x| x.0);
    let mut reported = vec![];
    let mut seen = std::collections::HashSet::new();
    for (i, e) in &fails {
        // one report per kind of failure and kind of candidate
        let kind = format!("{}|{}", cands[*i].label.split('=').next().unwrap_or("").split(" = ").next().unwrap_or(""), first_line(e).chars().take(70).collect::<String>());
        if seen.insert(kind.clone()) && reported.len() < 25 {
            reported.push(Rep { signature: format!("C12:{kind}"), summary: format!("{}: {e}", cands[*i].label), replay: json!({"property": "C12", "engine": "E3", "candidate": cands[*i].label, "machine_debug": format!("{:?}", cands[*i].m), "serialized": std::panic::catch_unwind(std::panic::AssertUnwindSafe(|| cands[*i].m.serialize())).unwrap_or_default(), "message": e}) });
        }
    }
    // Framework::new applies the same judgement to its own two fractions: accepted exactly when both are real numbers in [0,1]
    let mut fw_judgements = 0u64;
    if ctx.only_unit.is_none() {
        let base = literal_with_fracs(0.5, 0.5);
        let unit = |x: f64| x >= 0.0 && x <= 1.0;
        let cs = corners();
        for a in &cs {
            for b in &cs {
                fw_judgements += 1;
                let got = std::panic::catch_unwind(std::panic::AssertUnwindSafe(|| Framework::new(std::slice::from_ref(&base), *a, *b, std::time::Instant::now(), WordRng::new(&[], 1)).is_ok()));
                let want = unit(*a) && unit(*b);
                let msg = match got {
                    Ok(g) if g == want => continue,
                    Ok(g) => format!("Framework::new(max_padding_frac={a:?}, max_blocking_frac={b:?}) {} although {}", if g { "succeeds" } else { "fails" }, if want { "both fractions are real numbers in [0,1]" } else { "a fraction is not a real number in [0,1]" }),
                    Err(_) => format!("Framework::new(max_padding_frac={a:?}, max_blocking_frac={b:?}) panicked: {}", crate::explore::last_panic()),
                };
                let which = if !unit(*a) && unit(*b) { "padding" } else if unit(*a) && !unit(*b) { "blocking" } else { "both" };
                if seen.insert(format!("fwfrac|{which}")) && reported.len() < 25 {
                    reported.push(Rep { signature: format!("C12:framework-fractions:{which}"), summary: msg.clone(), replay: json!({"property": "C12", "engine": "E3", "candidate": format!("framework fractions ({a:?},{b:?})"), "machine_debug": format!("{:?}", base), "serialized": base.serialize(), "message": msg}) });
                }
            }
        }
    }
    let samples: Vec<Value> = cands.iter().step_by((cands.len() / 4).max(1)).take(4).map(|c| json!({"candidate": c.label})).collect();
    let coverage = json!({
        "evaluations": cands.len(), "distinct_nontrivial": acc.min(rej) * 2,
        "rule": "candidates = base machine literals with one numeric slot (machine fractions, transition probabilities, every distribution parameter / start / max of all 11 families in 7 positions) set to each value of a 22-value corner menu, plus structural faults (no states, targets n, n+1, STATE_MAX, END, SIGNAL, usize::MAX, duplicates, per-event sums around 1); pairs of slots within one distribution (all corner pairs in both tiers; thorough adds triples (two slots + start or max) over a 10-value extreme menu), pairs and triples of transition probabilities over a 16-value f32 corner menu, and pairs of fractions; Framework::new with every pair of corner values as its own fractions. Each candidate gets four judgements (Machine::new, validate, Framework::new, from_str(serialize)) which must agree; accepted candidates must satisfy an independent well-formedness predicate, build frameworks for fractions in [0,1] and run ten calls. distinct_nontrivial = 2 x min(accepted, rejected) (both outcomes exercised)",
        "samples": samples, "exhaustive": ctx.only_unit.is_none(),
        "accepted": acc, "rejected": rej, "failing_candidates": fails.len(), "judgements": cands.len() * 4, "framework_fraction_judgements": fw_judgements,
    });
    let vacuous = if (acc < 50 || rej < 50) && ctx.only_unit.is_none() && fails.is_empty() { Some(format!("accepted {acc}, rejected {rej}")) } else { None };
    WorkerOut { level: "exploration", coverage, assumptions: vec!["the well-formedness predicate for distribution parameters is no stronger than what rand_distr 0.4.3 enforces (e.g. a NaN mean of a Normal is not rejected by either)".into()], reported, vacuous }
}
