//! C02 — padding budgets: whenever a single-event call returns SendPadding for
//! machine m, then, recounting NormalSent / PaddingSent from the fed history
//! (public inputs only), either m has fewer paddings than its
//! allowed_padding_packets, or both its own fraction and the framework-wide
//! fraction are below their limits (if set; a fraction over zero packets counts
//! as below).
use super::*;
use crate::fam;
use crate::types::*;
use maybenot::action::Action;
use maybenot::event::TriggerEvent;

#[derive(Clone)]
pub struct Obs {
    normal: u64,
    total_pad: u64,
    pad: Vec<u64>,
}

/// p/t < frac, 0/0 counts as below. The f64 quotient of two small integers
/// compared with a dyadic limit is exact; in general correctly rounded division
/// is monotone, so whenever the code's `p/t >= frac` test passes this one does.
fn below(p: u64, t: u64, frac: f64) -> bool {
    if t == 0 {
        return true;
    }
    (p as f64) / (t as f64) < frac
}

impl Observer for Obs {
    fn init(cfg: &Cfg, _s: &[u8], _fw: &Fw) -> Result<Self, String> {
        Ok(Obs { normal: 0, total_pad: 0, pad: vec![0; cfg.machines.len()] })
    }
    fn on_call(&mut self, c: &CallCtx<'_>, stats: &mut Stats) -> Result<bool, String> {
        for e in c.batch {
            match e {
                TriggerEvent::NormalSent => self.normal += 1,
                TriggerEvent::PaddingSent { machine } => {
                    self.total_pad += 1;
                    if let Some(p) = self.pad.get_mut(machine.into_raw()) {
                        *p += 1;
                    }
                }
                _ => {}
            }
        }
        let mut engaged = false;
        if c.batch.len() != 1 {
            return Ok(false);
        }
        for a in c.actions {
            if let Act::Pad { m, .. } = a {
                let mach = c.cfg.machines.get(*m).ok_or_else(|| format!("SendPadding for machine {m} which does not exist"))?;
                let own = self.pad[*m];
                let by_allowance = own < mach.allowed_padding_packets;
                let m_ok = !(mach.max_padding_frac > 0.0) || below(own, self.normal + own, mach.max_padding_frac);
                let f_ok = !(c.cfg.pad_frac > 0.0) || below(self.total_pad, self.normal + self.total_pad, c.cfg.pad_frac);
                if !(by_allowance || (m_ok && f_ok)) {
                    return Err(format!(
                        "SendPadding returned for machine {m} although its budget is exhausted: paddings(m)={own} allowed={} normal_sent={} all_paddings={} machine max_padding_frac={} (own fraction {}/{}) framework max_padding_frac={} (global fraction {}/{})",
                        mach.allowed_padding_packets,
                        self.normal,
                        self.total_pad,
                        mach.max_padding_frac,
                        own,
                        self.normal + own,
                        c.cfg.pad_frac,
                        self.total_pad,
                        self.normal + self.total_pad
                    ));
                }
                if !by_allowance {
                    stats.bump("padding_returned_on_fraction_budget");
                    engaged = true;
                } else {
                    stats.bump("padding_returned_on_allowance");
                }
            }
        }
        // a padding state was (re-)entered but no padding came back: a limit was binding
        for s in c.steps {
            if let Some(t) = s.target {
                if let Some(st) = c.cfg.machines[s.machine].states.get(t) {
                    if matches!(st.action, Some(Action::SendPadding { .. })) && !c.actions.iter().any(|a| a.machine() == s.machine) {
                        stats.bump("padding_denied");
                        engaged = true;
                    }
                }
            }
        }
        Ok(engaged)
    }
    fn key(&self, out: &mut String) {
        out.push_str(&format!("|{}|{}|{:?}", self.normal, self.total_pad, self.pad));
    }
}

fn alphabet(n: usize) -> Alphabet {
    let mut b = vec![vec![TriggerEvent::NormalSent], vec![TriggerEvent::NormalRecv], vec![TriggerEvent::TunnelRecv]];
    for id in 0..=n {
        b.push(vec![TriggerEvent::PaddingSent { machine: mid(id) }]);
    }
    Alphabet { batches: b, deltas: vec![0] }
}

pub fn plans(ctx: &WorkerCtx) -> Vec<Plan> {
    let q = ctx.quick();
    let pads = fam::p_pad();
    let fw = [(0.0, 0.0), (0.25, 0.0), (0.5, 0.0), (1.0, 0.0)];
    let base = Opts { n32: 2, n64: 2, ..Default::default() };
    let mut v = vec![];
    let af = || -> Box<dyn Fn(&Cfg) -> Alphabet + Sync> { Box::new(|c: &Cfg| alphabet(c.machines.len())) };
    v.push(Plan { name: "one padder x framework fraction".into(), cfgs: fam::singles(&pads, &fw), alpha_for: af(), opts: Opts { depth: if q { 10 } else { 12 }, ..base.clone() }, walk: None });
    // padder next to a machine that only *reports* padding (moves the global fraction)
    let reporter = vec![("noop".to_string(), fam::noop())];
    let mut two = fam::all_pairs(&pads, &reporter, &fw);
    let sub: Vec<_> = pads.iter().filter(|(n, _)| q && !n.contains("frac0.25") || !q).cloned().collect();
    two.extend(fam::all_pairs(&sub, &sub, if q { &fw[2..3] } else { &fw }));
    v.push(Plan { name: "padder + reporter, all padder pairs".into(), cfgs: two, alpha_for: af(), opts: Opts { depth: if q { 8 } else { 9 }, ..base.clone() }, walk: None });
    let k0: Vec<_> = pads.iter().filter(|(n, _)| n.contains("k0") && !n.contains("frac0.25")).cloned().collect();
    let mut three = vec![];
    for (i, (na, a)) in k0.iter().enumerate() {
        for (nb, b) in k0.iter().skip(i % 2).step_by(if q { 3 } else { 1 }) {
            let (nc, cm) = &pads[(i * 7 + 13) % pads.len()];
            for f in if q { &fw[2..3] } else { &fw[..] } {
                three.push(Cfg::new(format!("[{na}, {nb}, {nc}] fw({},0)", f.0), vec![a.clone(), b.clone(), cm.clone()], f.0, 0.0));
            }
        }
    }
    v.push(Plan { name: "three padders".into(), cfgs: three, alpha_for: af(), opts: Opts { depth: if q { 7 } else { 8 }, ..base.clone() }, walk: None });
    // fractions that are not dyadic: the count ratio can equal the limit exactly in f64 (5/6, 7/10, 9/10, 1/3) and any
    // narrower or differently rounded arithmetic decides the other way at that point
    let mut nd = vec![];
    let ndf = [("1/3", 1.0 / 3.0), ("5/6", 5.0 / 6.0), ("0.7", 0.7), ("0.9", 0.9)];
    for kind in 0..3 {
        for allowed in [0u64, 1, 3] {
            nd.extend(fam::singles(&[(format!("padder[k{kind},allowed{allowed},frac1]"), fam::padder(kind, allowed, 1.0))], &ndf.map(|(_, f)| (f, 0.0))));
            for (fname, frac) in ndf {
                nd.extend(fam::singles(&[(format!("padder[k{kind},allowed{allowed},frac{fname}]"), fam::padder(kind, allowed, frac))], &[(0.0, 0.0)]));
            }
        }
    }
    v.push(Plan { name: "non-dyadic own and framework fractions (1/3, 5/6, 0.7, 0.9): ratio exactly at the limit".into(), cfgs: nd, alpha_for: af(), opts: Opts { depth: if q { 12 } else { 14 }, ..base.clone() }, walk: None });
    // general machines (G2 with padding actions) under framework fractions
    let g2: Vec<_> = fam::g2(if q { 1999 } else { 199 }, 5).into_iter().filter(|(_, m)| format!("{:?}", m).contains("SendPadding")).collect();
    v.push(Plan { name: "G2 machines with padding actions, pairs".into(), cfgs: fam::pairs_strided(&g2, 31, 7, &[(0.5, 0.0), (0.25, 0.0), (1.0, 0.0)]), alpha_for: Box::new(|c: &Cfg| Alphabet { batches: all_single_events(c.machines.len(), false).into_iter().map(|e| vec![e]).collect(), deltas: vec![0] }), opts: Opts { depth: if q { 4 } else { 5 }, ..base.clone() }, walk: None });
    // fractions at the very bottom of the valid range are set limits like any other
    let mut tiny = vec![];
    for kind in 0..3 {
        for allowed in [0u64, 1] {
            for (fname, frac) in [("5e-324", 5e-324), ("min_positive", f64::MIN_POSITIVE), ("1e-300", 1e-300), ("epsilon", f64::EPSILON)] {
                tiny.push((format!("padder[k{kind},allowed{allowed},frac{fname}]"), fam::padder(kind, allowed, frac)));
            }
        }
    }
    let mut tcfgs = fam::singles(&tiny, &[(0.0, 0.0), (1.0, 0.0)]);
    tcfgs.extend(fam::singles(&pads.iter().filter(|(n, _)| n.contains("frac0,") || n.contains("frac0]") || n.contains("frac1")).cloned().collect::<Vec<_>>(), &[(5e-324, 0.0), (f64::EPSILON, 0.0)]));
    tcfgs.extend(fam::all_pairs(&tiny, &reporter, &[(0.0, 0.0)]));
    v.push(Plan { name: "own and framework fractions at the bottom of the valid range (5e-324 .. f64::EPSILON)".into(), cfgs: tcfgs, alpha_for: af(), opts: Opts { depth: if q { 8 } else { 9 }, ..base.clone() }, walk: None });
    v
}

pub const RULE: &str = "single-event calls on the real Framework from every explored state; the observer recounts NormalSent/PaddingSent from the fed history and judges every returned SendPadding. distinct_nontrivial = distinct product states first reached by a call in which padding was returned with the packet allowance exhausted (a fraction limit decided) or a padding state was entered and no padding came back (a limit was binding)";

pub fn worker(ctx: &WorkerCtx) -> WorkerOut {
    let s = run_e1::<Obs>("C02", plans(ctx), ctx, RULE);
    let vacuous = if s.nontrivial_states < 200 && ctx.only_unit.is_none() && s.reported.is_empty() { Some(format!("only {} non-trivial states", s.nontrivial_states)) } else { None };
    WorkerOut {
        level: "model_checking",
        coverage: s.coverage,
        assumptions: vec!["budgets and fractions from the menus {0,1,2} x {0,0.25,0.5,1}; batches of one event (the statement is about single-event calls)".into()],
        reported: s.reported,
        vacuous,
    }
}
pub fn replay(v: &Value) -> Result<Option<String>, String> {
    replay_e1::<Obs>(v, false)
}
