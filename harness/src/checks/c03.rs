//! C03 — blocking budgets: whenever a single-event call returns BlockOutgoing
//! for machine m, then, measuring blocked time from the BlockingBegin /
//! BlockingEnd reports and the call time stamps (an ongoing block counts up to
//! now), at least one holds: (replace flag and blocking active), blocked time
//! below allowed_blocked_microsec, or blocked share of elapsed time below both
//! set fractions. Time running backwards counts as zero elapsed.
use super::*;
use crate::fam;
use crate::types::*;
use maybenot::event::TriggerEvent;

#[derive(Clone)]
pub struct Obs {
    blocked: u64,
    active: bool,
    since: u64,
}

fn share_below(b: u64, e: u64, frac: f64) -> bool {
    if !(frac > 0.0) {
        return true; // not set
    }
    if b == 0 {
        return true; // nothing blocked: below any limit
    }
    if e == 0 {
        return false; // blocked time over zero elapsed time
    }
    (b as f64) / (e as f64) < frac
}

impl Observer for Obs {
    fn init(cfg: &Cfg, _s: &[u8], _fw: &Fw) -> Result<Self, String> {
        Ok(Obs { blocked: 0, active: false, since: cfg.start })
    }
    fn on_call(&mut self, c: &CallCtx<'_>, stats: &mut Stats) -> Result<bool, String> {
        for e in c.batch {
            match e {
                TriggerEvent::BlockingBegin { .. } => {
                    if !self.active {
                        self.active = true;
                        self.since = c.now;
                    }
                }
                TriggerEvent::BlockingEnd => {
                    if self.active {
                        self.blocked += c.now.saturating_sub(self.since);
                        self.active = false;
                    }
                }
                _ => {}
            }
        }
        if c.batch.len() != 1 {
            return Ok(false);
        }
        let mut engaged = false;
        let ongoing = if self.active { c.now.saturating_sub(self.since) } else { 0 };
        let blocked = self.blocked + ongoing;
        let elapsed = c.now.saturating_sub(c.cfg.start);
        for a in c.actions {
            if let Act::Block { m, replace, .. } = a {
                let mach = c.cfg.machines.get(*m).ok_or_else(|| format!("BlockOutgoing for machine {m} which does not exist"))?;
                let c1 = *replace && self.active;
                let c2 = blocked < mach.allowed_blocked_microsec;
                let c3 = share_below(blocked, elapsed, mach.max_blocking_frac) && share_below(blocked, elapsed, c.cfg.blk_frac);
                if !(c1 || c2 || c3) {
                    return Err(format!(
                        "BlockOutgoing returned for machine {m} although over its limits: blocked={blocked}us (ongoing part {ongoing}us, blocking active={}) elapsed={elapsed}us allowed_blocked_microsec={} machine max_blocking_frac={} framework max_blocking_frac={} replace={replace}",
                        self.active, mach.allowed_blocked_microsec, mach.max_blocking_frac, c.cfg.blk_frac
                    ));
                }
                if !c2 {
                    stats.bump(if c1 { "blocking_returned_on_replace_escape" } else { "blocking_returned_on_fraction_budget" });
                    engaged = true;
                } else {
                    stats.bump("blocking_returned_on_allowance");
                }
            }
        }
        for s in c.steps {
            if let Some(t) = s.target {
                if let Some(st) = c.cfg.machines[s.machine].states.get(t) {
                    if matches!(st.action, Some(maybenot::action::Action::BlockOutgoing { .. })) && !c.actions.iter().any(|a| a.machine() == s.machine) {
                        stats.bump("blocking_denied");
                        engaged = true;
                    }
                }
            }
        }
        if c.now < c.prev_now {
            stats.bump("calls_with_clock_going_backwards");
        }
        Ok(engaged)
    }
    fn key(&self, out: &mut String) {
        out.push_str(&format!("|{}|{}|{}", self.blocked, self.active, self.since));
    }
}

fn alphabet(n: usize, deltas: Vec<i64>) -> Alphabet {
    let mut b = vec![vec![TriggerEvent::BlockingEnd], vec![TriggerEvent::NormalRecv], vec![TriggerEvent::NormalSent]];
    for id in [0, n] {
        b.push(vec![TriggerEvent::BlockingBegin { machine: mid(id) }]);
    }
    if n > 1 {
        b.push(vec![TriggerEvent::BlockingBegin { machine: mid(1) }]);
    }
    Alphabet { batches: b, deltas }
}

pub fn plans(ctx: &WorkerCtx) -> Vec<Plan> {
    let q = ctx.quick();
    let blks = fam::p_blk();
    let fw = [(0.0, 0.0), (0.0, 0.25), (0.0, 0.5), (0.0, 1.0)];
    let base = Opts { n32: 2, n64: 2, ..Default::default() };
    let d5: Vec<i64> = vec![0, 1, 3, 1000, -2];
    let d3: Vec<i64> = vec![0, 3, -2];
    let mut v = vec![];
    let dd = d3.clone();
    let dd1 = dd.clone();
    v.push(Plan { name: "one blocker x framework fraction".into(), cfgs: fam::singles(&blks, &fw), alpha_for: Box::new(move |c: &Cfg| alphabet(c.machines.len(), dd1.clone())), opts: Opts { depth: if q { 5 } else { 6 }, ..base.clone() }, walk: None });
    let sub: Vec<_> = blks.iter().step_by(if q { 5 } else { 2 }).cloned().collect();
    let dd2 = dd.clone();
    v.push(Plan { name: "two blockers".into(), cfgs: fam::all_pairs(&sub, &sub, if q { &fw[1..3] } else { &fw }), alpha_for: Box::new(move |c: &Cfg| alphabet(c.machines.len(), dd2.clone())), opts: Opts { depth: if q { 4 } else { 4 }, ..base.clone() }, walk: None });
    let d51 = d5.clone();
    v.push(Plan { name: "one blocker, five time steps (0,+1,+3,+1000,-2)".into(), cfgs: fam::singles(&blks, if q { &fw[1..3] } else { &fw }).into_iter().step_by(if q { 2 } else { 1 }).collect(), alpha_for: Box::new(move |c: &Cfg| alphabet(c.machines.len(), d51.clone())), opts: Opts { depth: if q { 4 } else { 5 }, ..base.clone() }, walk: None });
    let g2: Vec<_> = fam::g2(if q { 1999 } else { 199 }, 11).into_iter().filter(|(_, m)| format!("{:?}", m).contains("BlockOutgoing")).collect();
    let dd3 = d3.clone();
    v.push(Plan { name: "G2 machines with blocking actions, pairs".into(), cfgs: fam::pairs_strided(&g2, 31, 7, &[(0.0, 0.5), (0.0, 0.25), (0.0, 1.0)]), alpha_for: Box::new(move |c: &Cfg| Alphabet { batches: all_single_events(c.machines.len(), false).into_iter().map(|e| vec![e]).collect(), deltas: dd3.clone() }), opts: Opts { depth: if q { 2 } else { 3 }, ..base.clone() }, walk: None });
    let mut tiny = vec![];
    for kind in 0..2 {
        for allowed in [0u64, 2] {
            for (fname, frac) in [("5e-324", 5e-324), ("min_positive", f64::MIN_POSITIVE), ("epsilon", f64::EPSILON)] {
                tiny.push((format!("blocker[k{kind},repfalse,allowed{allowed},frac{fname}]"), fam::blocker(kind, false, allowed, frac)));
            }
        }
    }
    let mut tcfgs = fam::singles(&tiny, &[(0.0, 0.0), (0.0, 1.0)]);
    tcfgs.extend(fam::singles(&blks.iter().filter(|(n, _)| n.contains("repfalse") && (n.ends_with("frac0]") || n.ends_with("frac1]"))).cloned().collect::<Vec<_>>(), &[(0.0, 5e-324), (0.0, f64::EPSILON)]));
    let dd4 = d3.clone();
    v.push(Plan { name: "own and framework blocking fractions at the bottom of the valid range (5e-324 .. f64::EPSILON)".into(), cfgs: tcfgs, alpha_for: Box::new(move |c: &Cfg| alphabet(c.machines.len(), dd4.clone())), opts: Opts { depth: if q { 5 } else { 6 }, ..base.clone() }, walk: None });
    v
}


// ---------------------------------------------------------------------------
// The same oracle over the real `std::time::Instant` / `Duration` implementation of the time traits,
// with nanosecond-granular clock steps (the virtual clock above counts whole microseconds).
// ---------------------------------------------------------------------------
/// b/e < frac decided exactly (frac = m * 2^exp as a dyadic rational, big-integer comparison). A correctly
/// rounded quotient of two exactly converted integers is monotone, so an implementation that refuses when
/// fl(b/e) >= frac never allows a share that is not below the limit (above 2^53 ns, where the conversions
/// round, the same holds for an implementation that rounds the dividend up and the divisor down); the exact
/// comparison therefore raises no alarm on such an implementation, and no slack is needed.
fn share_below_ns(b: u64, e: u64, frac: f64) -> bool {
    if !(frac > 0.0) || b == 0 {
        return true;
    }
    if e == 0 {
        return false;
    }
    if frac >= 1.0 {
        return b < e;
    }
    let bits = frac.to_bits();
    let raw_exp = ((bits >> 52) & 0x7ff) as i64;
    let (m, exp) = if raw_exp == 0 { (bits & ((1u64 << 52) - 1), -1074i64) } else { ((bits & ((1u64 << 52) - 1)) | (1u64 << 52), raw_exp - 1075) };
    // frac < 1 => exp < 0; b/e < m 2^exp  <=>  b 2^-exp < m e
    let sh = (-exp) as u32;
    if ((b as u128).leading_zeros()) < sh {
        return false; // the left side is at least 2^128, the right side below 2^117
    }
    ((b as u128) << sh) < (m as u128) * (e as u128)
}
#[derive(Clone)]
struct StdState {
    f: maybenot::Framework<Ms, crate::rng::WordRng, std::time::Instant>,
    off: u64,
    blocked: u64,
    active: bool,
    since: u64,
}
/// Exhaustive DFS to `depth` over {BlockingBegin, BlockingEnd, NormalRecv} x nanosecond steps. Returns (calls, first failure).
pub fn std_time_dfs(cfg: &Cfg, depth: usize) -> (u64, Option<(Vec<(String, i64)>, String)>) {
    use maybenot::event::TriggerEvent as T;
    let t0 = std::time::Instant::now();
    let ms = Ms(std::sync::Arc::new(cfg.machines.clone()));
    let f = match maybenot::Framework::new(ms, 0.0, cfg.blk_frac, t0, crate::rng::WordRng::new(&[], 5)) {
        Ok(f) => f,
        Err(e) => return (0, Some((vec![], format!("{:?}", e)))),
    };
    let events = [T::BlockingBegin { machine: mid(0) }, T::BlockingEnd, T::NormalRecv];
    let deltas: [i64; 10] = [0, 1, 5, 15, 500, 999, 1000, 1500, 3000, -700];
    let mut calls = 0u64;
    let mut stack: Vec<(StdState, Vec<(u8, u8)>)> = vec![(StdState { f, off: 0, blocked: 0, active: false, since: 0 }, vec![])];
    while let Some((st, hist)) = stack.pop() {
        if hist.len() >= depth {
            continue;
        }
        for (ei, e) in events.iter().enumerate() {
            for (di, d) in deltas.iter().enumerate() {
                let mut s2 = st.clone();
                s2.off = if *d >= 0 { s2.off + *d as u64 } else { s2.off.saturating_sub(d.unsigned_abs()) };
                let now = t0 + std::time::Duration::from_nanos(s2.off);
                match e {
                    T::BlockingBegin { .. } => {
                        if !s2.active {
                            s2.active = true;
                            s2.since = s2.off;
                        }
                    }
                    T::BlockingEnd => {
                        if s2.active {
                            s2.blocked += s2.off.saturating_sub(s2.since);
                            s2.active = false;
                        }
                    }
                    _ => {}
                }
                calls += 1;
                let acts: Vec<Act> = s2.f.trigger_events(std::slice::from_ref(e), now).map(conv_std).collect();
                let ongoing = if s2.active { s2.off.saturating_sub(s2.since) } else { 0 };
                let blocked = s2.blocked + ongoing;
                for a in &acts {
                    if let Act::Block { m, replace, .. } = a {
                        let mach = &cfg.machines[*m];
                        let c1 = *replace && s2.active;
                        let c2 = blocked < mach.allowed_blocked_microsec.saturating_mul(1000);
                        let c3 = share_below_ns(blocked, s2.off, mach.max_blocking_frac) && share_below_ns(blocked, s2.off, cfg.blk_frac);
                        if !(c1 || c2 || c3) {
                            let mut h: Vec<(String, i64)> = hist.iter().map(|(a, b)| (ev_to_string(&events[*a as usize]), deltas[*b as usize])).collect();
                            h.push((ev_to_string(e), *d));
                            return (calls, Some((h, format!("BlockOutgoing returned for machine {m} although over its limits: blocked={blocked}ns (blocking active={}) elapsed={}ns allowed_blocked_microsec={} machine max_blocking_frac={} framework max_blocking_frac={} replace={replace}", s2.active, s2.off, mach.allowed_blocked_microsec, mach.max_blocking_frac, cfg.blk_frac))));
                        }
                    }
                }
                let mut h2 = hist.clone();
                h2.push((ei as u8, di as u8));
                stack.push((s2, h2));
            }
        }
    }
    (calls, None)
}
/// Spans above 2^53 ns (104 days), where the conversion of a nanosecond count to f64 is no longer exact: histories
/// BlockingBegin at t0, BlockingEnd at t0 + b, NormalRecv at t0 + e with b / e exactly equal to (or just above) the
/// set fraction, budget 0, no replace. Returns (calls, failures as (signature, message, replay)).
pub fn std_time_huge() -> (u64, Vec<(String, String, Value)>) {
    use maybenot::event::TriggerEvent as T;
    let day = 86_400u64 * 1_000_000_000;
    let mut calls = 0u64;
    let mut fails: Vec<(String, String, Value)> = vec![];
    for (frac, num, den) in [(0.75f64, 3u64, 4u64), (0.875, 7, 8), (0.5, 1, 2)] {
        for own in [true, false] {
            for k in 0..400u64 {
                for extra in [0u64, 1] {
                    let e = 200 * day + den * k;
                    let b = e / den * num + extra; // share == frac (extra 0) or just above it (extra 1)
                    let m = fam::blocker(0, false, 0, if own { frac } else { 0.0 });
                    let t0 = std::time::Instant::now();
                    let r = std::panic::catch_unwind(std::panic::AssertUnwindSafe(|| {
                        let mut f = maybenot::Framework::new(vec![m], 0.0, if own { 0.0 } else { frac }, t0, crate::rng::WordRng::new(&[], 5)).expect("framework");
                        let _ = f.trigger_events(&[T::BlockingBegin { machine: mid(0) }], t0).count();
                        let _ = f.trigger_events(&[T::BlockingEnd], t0 + std::time::Duration::from_nanos(b)).count();
                        f.trigger_events(&[T::NormalRecv], t0 + std::time::Duration::from_nanos(e)).map(conv_std).collect::<Vec<Act>>()
                    }));
                    calls += 3;
                    let Ok(acts) = r else { continue }; // a panic is C01's business
                    if acts.iter().any(|a| matches!(a, Act::Block { .. })) && !share_below_ns(b, e, frac) {
                        let sig = "C03:std-time:share-misjudged-above-2^53ns".to_string();
                        if !fails.iter().any(|x| x.0 == sig) {
                            fails.push((sig, format!("std::time clock, {} fraction {frac}, budget 0: blocked {b} ns of {e} ns elapsed (share {} the limit) and BlockOutgoing was returned", if own { "machine" } else { "framework" }, if extra == 0 { "exactly equal to" } else { "above" }), json!({"property": "C03", "engine": "E1-std-time-huge", "blocked_ns": b, "elapsed_ns": e, "fraction": frac, "machine_fraction": own, "message": "share not below the limit, action returned"})));
                        }
                    }
                }
            }
        }
    }
    (calls, fails)
}

pub fn std_time_configs() -> Vec<Cfg> {
    let mut lib = vec![];
    for replace in [false, true] {
        for allowed in [0u64, 1, 2] {
            // 0.75 and 0.875: shares equal to the limit whose quotient of rounded second counts falls just below it
            for frac in [0.0, 0.25, 0.5, 0.75, 0.875, 1.0] {
                lib.push((format!("blocker[k0,rep{replace},allowed{allowed},frac{frac}]"), fam::blocker(0, replace, allowed, frac)));
            }
        }
    }
    fam::singles(&lib, &[(0.0, 0.0), (0.0, 0.5), (0.0, 0.75)])
}

pub const RULE: &str = "single-event calls on the real Framework from every explored state over a virtual clock (time steps incl. 0 and backwards); the observer recomputes blocked time from the fed BlockingBegin/BlockingEnd events and time stamps and judges every returned BlockOutgoing. distinct_nontrivial = distinct product states first reached by a call in which blocking was returned with the microsecond allowance exhausted, or a blocking state was entered and no action came back";

pub fn worker(ctx: &WorkerCtx) -> WorkerOut {
    let mut s = run_e1::<Obs>("C03", plans(ctx), ctx, RULE);
    if ctx.only_unit.is_none() {
        // std::time phase: all histories to the depth bound, in parallel over configurations
        let cfgs = std_time_configs();
        let depth = if ctx.quick() { 4 } else { 5 };
        let next = std::sync::atomic::AtomicUsize::new(0);
        let parts: Vec<(u64, Vec<(usize, Vec<(String, i64)>, String)>)> = std::thread::scope(|sc| {
            let hs: Vec<_> = (0..ctx.threads())
                .map(|_| {
                    let (next, cfgs) = (&next, &cfgs);
                    sc.spawn(move || {
                        let (mut n, mut f) = (0u64, vec![]);
                        loop {
                            let i = next.fetch_add(1, std::sync::atomic::Ordering::Relaxed);
                            if i >= cfgs.len() {
                                break;
                            }
                            let (c, fail) = std_time_dfs(&cfgs[i], depth);
                            n += c;
                            crate::supervise::beat();
                            if let Some((h, m)) = fail {
                                f.push((i, h, m));
                            }
                        }
                        (n, f)
                    })
                })
                .collect();
            hs.into_iter().map(|h| h.join().unwrap()).collect()
        });
        let mut calls = 0u64;
        for (n, fails) in parts {
            calls += n;
            for (i, h, m) in fails {
                if s.reported.len() < 12 {
                    s.reported.push(Rep { signature: format!("C03:std-time:{}:{}", cfgs[i].label, first_line(&m).chars().take(60).collect::<String>()), summary: format!("[{}] std::time clock, after {} calls: {}", cfgs[i].label, h.len(), m), replay: json!({"property": "C03", "engine": "E1-std-time", "config_index": i, "config": cfgs[i].label, "history_event_and_step_ns": h, "depth": depth, "message": m}) });
                }
            }
        }
        let (hc, hf) = std_time_huge();
        s.coverage["std_time_calls_with_spans_above_2^53_ns"] = json!(hc);
        for (sig, msg, replay) in hf {
            s.reported.push(Rep { signature: sig, summary: msg, replay });
        }
        s.coverage["std_time_configurations"] = json!(cfgs.len());
        s.coverage["std_time_depth"] = json!(depth);
        s.coverage["std_time_calls_all_histories"] = json!(calls);
    }
    let vacuous = if s.nontrivial_states < 200 && ctx.only_unit.is_none() && s.reported.is_empty() { Some(format!("only {} non-trivial states", s.nontrivial_states)) } else { None };
    WorkerOut {
        level: "model_checking",
        coverage: s.coverage,
        assumptions: vec!["budgets {0,2,1000}us x fractions {0,0.25,0.5,1}; every machine starts with the framework (per-machine elapsed time = framework elapsed time)".into()],
        reported: s.reported,
        vacuous,
    }
}
pub fn replay(v: &Value) -> Result<Option<String>, String> {
    if v["engine"].as_str() == Some("E1-std-time-huge") {
        let a = std_time_huge().1.into_iter().next().map(|x| x.1);
        let b = std_time_huge().1.into_iter().next().map(|x| x.1);
        if a.is_some() != b.is_some() {
            return Err("std-time replay not deterministic".into());
        }
        return Ok(a);
    }
    if v["engine"].as_str() == Some("E1-std-time") {
        let cfgs = std_time_configs();
        let i = v["config_index"].as_u64().ok_or("no config index")? as usize;
        let d = v["depth"].as_u64().unwrap_or(4) as usize;
        let a = std_time_dfs(cfgs.get(i).ok_or("config index")?, d).1.map(|x| x.1);
        let b = std_time_dfs(&cfgs[i], d).1.map(|x| x.1);
        if a.is_some() != b.is_some() {
            return Err("std-time replay not deterministic".into());
        }
        return Ok(a);
    }
    replay_e1::<Obs>(v, false)
}
