//! C03 — blocking budgets: whenever a single-event call returns BlockOutgoing
//! for machine m, then, measuring blocked time from the BlockingBegin /
//! BlockingEnd reports and the call time stamps (an ongoing block counts up to
//! now), at least one holds: (replace flag and blocking active), blocked time
//! below allowed_blocked_microsec, or blocked share of elapsed time below both
//! set fractions. Time running backwards counts as zero elapsed.
use super::*;
use crate::fam;
use crate::types::*;
use maybenot::event::TriggerEvent;

#[derive(Clone)]
pub struct Obs {
    blocked: u64,
    active: bool,
    since: u64,
}

fn share_below(b: u64, e: u64, frac: f64) -> bool {
    if !(frac > 0.0) {
        return true; // not set
    }
    if b == 0 {
        return true; // nothing blocked: below any limit
    }
    if e == 0 {
        return false; // blocked time over zero elapsed time
    }
    (b as f64) / (e as f64) < frac
}

impl Observer for Obs {
    fn init(cfg: &Cfg, _s: &[u8], _fw: &Fw) -> Result<Self, String> {
        Ok(Obs { blocked: 0, active: false, since: cfg.start })
    }
    fn on_call(&mut self, c: &CallCtx<'_>, stats: &mut Stats) -> Result<bool, String> {
        for e in c.batch {
            match e {
                TriggerEvent::BlockingBegin { .. } => {
                    if !self.active {
                        self.active = true;
                        self.since = c.now;
                    }
                }
                TriggerEvent::BlockingEnd => {
                    if self.active {
                        self.blocked += c.now.saturating_sub(self.since);
                        self.active = false;
                    }
                }
                _ => {}
            }
        }
        if c.batch.len() != 1 {
            return Ok(false);
        }
        let mut engaged = false;
        let ongoing = if self.active { c.now.saturating_sub(self.since) } else { 0 };
        let blocked = self.blocked + ongoing;
        let elapsed = c.now.saturating_sub(c.cfg.start);
        for a in c.actions {
            if let Act::Block { m, replace, .. } = a {
                let mach = c.cfg.machines.get(*m).ok_or_else(|| format!("BlockOutgoing for machine {m} which does not exist"))?;
                let c1 = *replace && self.active;
                let c2 = blocked < mach.allowed_blocked_microsec;
                let c3 = share_below(blocked, elapsed, mach.max_blocking_frac) && share_below(blocked, elapsed, c.cfg.blk_frac);
                if !(c1 || c2 || c3) {
                    return Err(format!(
                        "BlockOutgoing returned for machine {m} although over its limits: blocked={blocked}us (ongoing part {ongoing}us, blocking active={}) elapsed={elapsed}us allowed_blocked_microsec={} machine max_blocking_frac={} framework max_blocking_frac={} replace={replace}",
                        self.active, mach.allowed_blocked_microsec, mach.max_blocking_frac, c.cfg.blk_frac
                    ));
                }
                if !c2 {
                    stats.bump(if c1 { "blocking_returned_on_replace_escape" } else { "blocking_returned_on_fraction_budget" });
                    engaged = true;
                } else {
                    stats.bump("blocking_returned_on_allowance");
                }
            }
        }
        for s in c.steps {
            if let Some(t) = s.target {
                if let Some(st) = c.cfg.machines[s.machine].states.get(t) {
                    if matches!(st.action, Some(maybenot::action::Action::BlockOutgoing { .. })) && !c.actions.iter().any(|a| a.machine() == s.machine) {
                        stats.bump("blocking_denied");
                        engaged = true;
                    }
                }
            }
        }
        if c.now < c.prev_now {
            stats.bump("calls_with_clock_going_backwards");
        }
        Ok(engaged)
    }
    fn key(&self, out: &mut String) {
        out.push_str(&format!("|{}|{}|{}", self.blocked, self.active, self.since));
    }
}

fn alphabet(n: usize, deltas: Vec<i64>) -> Alphabet {
    let mut b = vec![vec![TriggerEvent::BlockingEnd], vec![TriggerEvent::NormalRecv], vec![TriggerEvent::NormalSent]];
    for id in [0, n] {
        b.push(vec![TriggerEvent::BlockingBegin { machine: mid(id) }]);
    }
    if n > 1 {
        b.push(vec![TriggerEvent::BlockingBegin { machine: mid(1) }]);
    }
    Alphabet { batches: b, deltas }
}

pub fn plans(ctx: &WorkerCtx) -> Vec<Plan> {
    let q = ctx.quick();
    let blks = fam::p_blk();
    let fw = [(0.0, 0.0), (0.0, 0.25), (0.0, 0.5), (0.0, 1.0)];
    let base = Opts { n32: 2, n64: 2, ..Default::default() };
    let d5: Vec<i64> = vec![0, 1, 3, 1000, -2];
    let d3: Vec<i64> = vec![0, 3, -2];
    let mut v = vec![];
    let dd = d3.clone();
    let dd1 = dd.clone();
    v.push(Plan { name: "one blocker x framework fraction".into(), cfgs: fam::singles(&blks, &fw), alpha_for: Box::new(move |c: &Cfg| alphabet(c.machines.len(), dd1.clone())), opts: Opts { depth: if q { 4 } else { 6 }, ..base.clone() }, walk: None });
    let sub: Vec<_> = blks.iter().step_by(if q { 5 } else { 2 }).cloned().collect();
    let dd2 = dd.clone();
    v.push(Plan { name: "two blockers".into(), cfgs: fam::all_pairs(&sub, &sub, if q { &fw[1..3] } else { &fw }), alpha_for: Box::new(move |c: &Cfg| alphabet(c.machines.len(), dd2.clone())), opts: Opts { depth: if q { 3 } else { 4 }, ..base.clone() }, walk: None });
    let d51 = d5.clone();
    v.push(Plan { name: "one blocker, five time steps (0,+1,+3,+1000,-2)".into(), cfgs: fam::singles(&blks, if q { &fw[1..3] } else { &fw }).into_iter().step_by(if q { 2 } else { 1 }).collect(), alpha_for: Box::new(move |c: &Cfg| alphabet(c.machines.len(), d51.clone())), opts: Opts { depth: if q { 3 } else { 5 }, ..base.clone() }, walk: None });
    let g2: Vec<_> = fam::g2(if q { 1999 } else { 199 }, 11).into_iter().filter(|(_, m)| format!("{:?}", m).contains("BlockOutgoing")).collect();
    let dd3 = d3.clone();
    v.push(Plan { name: "G2 machines with blocking actions, pairs".into(), cfgs: fam::pairs_strided(&g2, 31, 7, &[(0.0, 0.5), (0.0, 0.25), (0.0, 1.0)]), alpha_for: Box::new(move |c: &Cfg| Alphabet { batches: all_single_events(c.machines.len(), false).into_iter().map(|e| vec![e]).collect(), deltas: dd3.clone() }), opts: Opts { depth: if q { 2 } else { 3 }, ..base.clone() }, walk: None });
    v
}

pub const RULE: &str = "single-event calls on the real Framework from every explored state over a virtual clock (time steps incl. 0 and backwards); the observer recomputes blocked time from the fed BlockingBegin/BlockingEnd events and time stamps and judges every returned BlockOutgoing. distinct_nontrivial = distinct product states first reached by a call in which blocking was returned with the microsecond allowance exhausted, or a blocking state was entered and no action came back";

pub fn worker(ctx: &WorkerCtx) -> WorkerOut {
    let s = run_e1::<Obs>("C03", plans(ctx), ctx, RULE);
    let vacuous = if s.nontrivial_states < 200 && ctx.only_unit.is_none() && s.reported.is_empty() { Some(format!("only {} non-trivial states", s.nontrivial_states)) } else { None };
    WorkerOut {
        level: "model_checking",
        coverage: s.coverage,
        assumptions: vec!["budgets {0,2,1000}us x fractions {0,0.25,0.5,1}; every machine starts with the framework (per-machine elapsed time = framework elapsed time)".into()],
        reported: s.reported,
        vacuous,
    }
}
pub fn replay(v: &Value) -> Result<Option<String>, String> {
    replay_e1::<Obs>(v, false)
}
