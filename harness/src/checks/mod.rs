//! Per-property checks. Each exposes `worker(&WorkerCtx) -> WorkerOut` (the
//! exploration, run in the child process) and, where a history replay exists,
//! `replay(&Value) -> Result<bool, String>` (true = violation reproduced).
use crate::explore::*;
use crate::types::Cfg;
use serde_json::{json, Value};

pub mod c01;
pub mod c02;
pub mod c03;
pub mod c04;
pub mod c05;
pub mod c06;
pub mod c07;
pub mod c08;
pub mod c09;
pub mod c10;
pub mod c11;
pub mod c12;
pub mod c13;
pub mod c20;
pub mod logparse;
pub mod simchecks;

pub struct WorkerCtx {
    pub tier: String,
    pub seed: u64,
    pub only_unit: Option<u64>,
}
impl WorkerCtx {
    pub fn quick(&self) -> bool {
        self.tier != "thorough"
    }
    pub fn threads(&self) -> usize {
        if self.only_unit.is_some() {
            1
        } else {
            std::env::var("VERIF_THREADS").ok().and_then(|s| s.parse().ok()).unwrap_or(16)
        }
    }
}

pub struct Rep {
    pub signature: String,
    pub summary: String,
    pub replay: Value,
}
pub struct WorkerOut {
    pub level: &'static str,
    pub coverage: Value,
    pub assumptions: Vec<String>,
    pub reported: Vec<Rep>,
    /// set when the run did not engage the property's mechanism often enough
    pub vacuous: Option<String>,
}
impl WorkerOut {
    pub fn to_json(&self) -> Value {
        json!({
            "level": self.level,
            "coverage": self.coverage,
            "assumptions": self.assumptions,
            "vacuous": self.vacuous,
            "reported": self.reported.iter().map(|r| json!({"signature": r.signature, "summary": r.summary, "replay": r.replay})).collect::<Vec<_>>(),
        })
    }
}

/// One exploration plan of E1: a configuration set, its alphabet and bounds.
pub struct Plan {
    pub name: String,
    pub cfgs: Vec<Cfg>,
    pub alpha_for: Box<dyn Fn(&Cfg) -> Alphabet + Sync>,
    pub opts: Opts,
    /// supplementary long pseudo-random walks per configuration: (number of seeds, calls per walk).
    /// Labelled *sampled* in the evidence; the exhaustive search above is what decides.
    pub walk: Option<(u64, usize)>,
}

pub struct E1Summary {
    pub coverage: Value,
    pub reported: Vec<Rep>,
    pub engaged: u64,
    pub nontrivial_states: u64,
    pub stats: Stats,
}

/// Run a list of plans with observer `O` and fold the results into one coverage object.
pub fn run_e1<O: Observer>(property: &str, plans: Vec<Plan>, ctx: &WorkerCtx, rule: &str) -> E1Summary {
    let mut states = 0u64;
    let mut transitions = 0u64;
    let mut nontrivial = 0u64;
    let mut engaged = 0u64;
    let mut plan_rows = vec![];
    let mut samples = vec![];
    let mut reported = vec![];
    let mut exhaustive = true;
    let mut stats = Stats::default();
    let mut outcomes = 0usize;
    let mut panics = 0u64;
    let mut clone_checks = 0u64;
    let mut fresh_checks = 0u64;
    let mut walk_calls = 0u64;
    let mut walk_engaged = 0u64;
    let only_plan: Option<usize> = std::env::var("VERIF_PLAN").ok().and_then(|s| s.parse().ok());
    for (pi, mut p) in plans.into_iter().enumerate() {
        if only_plan.is_some() && only_plan != Some(pi) {
            continue;
        }
        p.opts.threads = ctx.threads();
        if p.opts.wall_budget_s == 0 {
            // safety net: a plan that runs out of its budget is reported as not exhaustive, never as a verdict
            p.opts.wall_budget_s = if ctx.quick() { 150 } else { 420 };
        }
        let t0 = std::time::Instant::now();
        let base = pi as u64 * 10_000_000;
        let r = explore_all::<O>(&p.cfgs, &*p.alpha_for, &p.opts, 12, base, ctx.only_unit);
        states += r.states;
        transitions += r.transitions;
        nontrivial += r.nontrivial_states;
        engaged += r.engaged_transitions;
        outcomes += r.distinct_outcomes;
        panics += r.subject_panics;
        clone_checks += r.clone_checks;
        fresh_checks += r.fresh_checks;
        stats.merge(&r.stats);
        let nviol = r.violations.len();
        let complete = r.capped_configs == 0 && !r.wall_capped && nviol == 0 && ctx.only_unit.is_none();
        if !complete {
            exhaustive = false;
        }
        eprintln!("  plan {pi} [{}]: {} configs, {} states, {} transitions, {} violations, {:.1}s", p.name, r.configs, r.states, r.transitions, nviol, t0.elapsed().as_secs_f64());
        let a0 = if p.cfgs.is_empty() { None } else { Some((p.alpha_for)(&p.cfgs[0])) };
        plan_rows.push(json!({
            "plan": p.name,
            "configurations": r.configs,
            "configurations_explored": r.configs_done,
            "depth_bound": p.opts.depth,
            "min_depth_completed": r.min_depth_completed,
            "batches_in_alphabet_of_first_config": a0.as_ref().map(|a| a.batches.len()),
            "time_steps_us": a0.as_ref().map(|a| a.deltas.clone()),
            "rng_menu_u32": rng_menu32(&p.opts),
            "rng_menu_u64": rng_menu64(&p.opts),
            "states": r.states,
            "transitions": r.transitions,
            "configs_hitting_state_cap": r.capped_configs,
            "rng_scripts_cut_by_deviation_bound": r.truncated_scripts,
            "deviation_bound": p.opts.max_deviations,
            "choice_points_enumerated_completely": p.opts.full_positions,
            "complete_within_bounds": complete,
            "wall_s": t0.elapsed().as_secs_f64(),
        }));
        for s in r.samples {
            if samples.len() < 5 {
                samples.push(s);
            }
        }
        let mut violations = r.violations;
        if let (Some((nseeds, steps)), true) = (p.walk, ctx.only_unit.is_none()) {
            let next = std::sync::atomic::AtomicUsize::new(0);
            let found: Vec<(u64, u64, Vec<Violation>)> = std::thread::scope(|sc| {
                let hs: Vec<_> = (0..ctx.threads())
                    .map(|_| {
                        let (next, p) = (&next, &p);
                        sc.spawn(move || {
                            let (mut c, mut e, mut v) = (0u64, 0u64, vec![]);
                            loop {
                                let i = next.fetch_add(1, std::sync::atomic::Ordering::Relaxed);
                                if i >= p.cfgs.len() {
                                    break;
                                }
                                let alpha = (p.alpha_for)(&p.cfgs[i]);
                                for sd in 0..nseeds {
                                    let (a, b, viol) = random_walk::<O>(i, &p.cfgs[i], &alpha, &p.opts, ctx.seed.wrapping_mul(7919).wrapping_add(sd * 104_729 + i as u64), steps);
                                    c += a;
                                    e += b;
                                    if let Some(x) = viol {
                                        if v.len() < 3 {
                                            v.push(x);
                                        }
                                        break;
                                    }
                                }
                                if i % 32 == 0 {
                                    crate::supervise::beat();
                                }
                            }
                            (c, e, v)
                        })
                    })
                    .collect();
                hs.into_iter().map(|h| h.join().unwrap()).collect()
            });
            for (c, e, v) in found {
                walk_calls += c;
                walk_engaged += e;
                for mut x in v {
                    if violations.len() < 12 {
                        x.kind = format!("{} (random walk)", x.kind);
                        violations.push(x);
                    }
                }
            }
        }
        for v in violations {
            let cfg = &p.cfgs[v.cfg_index];
            let replay = {
                let mut j = replay_json(property, cfg, &v, &p.opts);
                j["plan"] = json!(p.name);
                j
            };
            let sig = format!("E1:{}:{}:{}", v.kind, cfg.label, first_line(&v.message));
            reported.push(Rep { signature: sig, summary: format!("[{}] {} after {} calls: {}", cfg.label, v.kind, v.ops.len(), v.message), replay });
        }
    }
    if samples.is_empty() {
        samples.push(json!("no engaged history was recorded in this run"));
    }
    let coverage = json!({
        "states": states,
        "transitions": transitions,
        "traces_validated_against_impl": transitions,
        "samples": samples,
        "evaluations": transitions,
        "distinct_nontrivial": nontrivial,
        "rule": rule,
        "exhaustive": exhaustive,
        "engaged_transitions": engaged,
        "distinct_action_lists_returned": outcomes,
        "subject_panics_skipped": panics,
        "clone_determinism_checks": clone_checks,
        "fresh_instance_replays": fresh_checks,
        "sampled_random_walk_calls": walk_calls,
        "sampled_random_walk_engaged_calls": walk_engaged,
        "plans": plan_rows,
        "observer_counters": stats.0.iter().map(|(k, v)| (k.to_string(), json!(v))).collect::<serde_json::Map<String, Value>>(),
    });
    E1Summary { coverage, reported, engaged, nontrivial_states: nontrivial, stats }
}

pub fn first_line(s: &str) -> String {
    let l = s.lines().next().unwrap_or("");
    l.chars().take(160).collect()
}

/// Rebuild a configuration and history from an E1 replay file.
pub fn parse_e1_replay(v: &Value) -> Result<(Cfg, Vec<u8>, Vec<Op>, Opts), String> {
    let c = &v["config"];
    let ms: Vec<String> = c["machines"].as_array().ok_or("no machines")?.iter().map(|x| x.as_str().unwrap_or("").to_string()).collect();
    let machines = machines_from_strings(&ms)?;
    let mut cfg = Cfg::new(c["label"].as_str().unwrap_or("replay"), machines, c["max_padding_frac"].as_f64().unwrap_or(0.0), c["max_blocking_frac"].as_f64().unwrap_or(0.0));
    cfg.start = c["start_us"].as_u64().unwrap_or(1000);
    let u8s = |x: &Value| -> Vec<u8> { x.as_array().map(|a| a.iter().map(|y| y.as_u64().unwrap_or(0) as u8).collect()).unwrap_or_default() };
    let init = u8s(&v["init_script"]);
    let mut ops = vec![];
    for op in v["ops"].as_array().ok_or("no ops")? {
        let batch = op["batch"].as_array().ok_or("no batch")?.iter().map(|e| crate::types::ev_from_string(e.as_str().unwrap_or("")).ok_or("bad event")).collect::<Result<Vec<_>, _>>()?;
        ops.push(Op { batch, now: op["now_us"].as_u64().ok_or("no now")?, script: u8s(&op["script"]) });
    }
    let mut o = Opts::default();
    let m32 = v["rng_menu"]["m32"].as_array().map(|a| a.len()).unwrap_or(2);
    o.n32 = m32 as u8;
    o.m64_words = v["rng_menu"]["m64"].as_array().map(|a| a.iter().map(|x| x.as_u64().unwrap_or(0)).collect());
    Ok((cfg, init, ops, o))
}

/// Replay an E1 history with observer `O`, twice; Ok(Some(msg)) = violation reproduced identically.
pub fn replay_e1<O: Observer>(v: &Value, panic_is_violation: bool) -> Result<Option<String>, String> {
    let (cfg, init, ops, o) = parse_e1_replay(v)?;
    let run = || -> Option<String> {
        match replay_with_observer::<O>(&cfg, &init, &ops, &o) {
            Ok(_) => None,
            Err(e) => {
                if e.starts_with("subject panicked") && !panic_is_violation {
                    None
                } else {
                    Some(e)
                }
            }
        }
    };
    let a = run();
    let b = run();
    if a != b {
        return Err(format!("replay is not deterministic: first {:?}, second {:?}", a, b));
    }
    Ok(a)
}
