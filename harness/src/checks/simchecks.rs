//! C14-C19: bounded-exhaustive enumeration of closed simulator systems on the
//! real `sim` / `sim_advanced`, judged by replay-bound contract monitors.
use super::*;
use crate::monitors::{self, Viol};
use crate::sim::*;
use crate::simrun::*;
use maybenot::event::TriggerEvent;
use std::sync::Arc;

#[derive(Clone, Debug)]
pub struct Job {
    pub trace: u32,
    pub delay_ns: u64,
    pub cset: Vec<u16>,
    pub sset: Vec<u16>,
    pub fr: u8,
    pub cont: bool,
    pub seed: u64,
    pub pps: Option<usize>,
    pub max_iter: usize,
    pub max_len: usize,
    pub only_client: bool,
    pub only_net: bool,
    /// C14 only: 0 = sim_advanced, 1 = sim()
    pub api: u8,
    pub style: u8,
}
impl Job {
    fn new(trace: u32, delay_ns: u64, cset: Vec<u16>, sset: Vec<u16>) -> Job {
        Job { trace, delay_ns, cset, sset, fr: 0, cont: true, seed: 0, pps: None, max_iter: 120, max_len: 0, only_client: false, only_net: false, api: 0, style: 0 }
    }
}
const FRACS: [(f64, f64, f64, f64); 2] = [(0.0, 0.0, 0.0, 0.0), (0.5, 0.5, 0.5, 0.5)];

pub struct Space {
    pub traces: Arc<Vec<Vec<Pkt>>>,
    pub lib: Arc<Vec<Gadget>>,
}
impl Space {
    pub fn build(&self, j: &Job) -> SimSys {
        let mut s = SimSys::new(self.traces[j.trace as usize].clone(), j.delay_ns);
        for i in &j.cset {
            s.client.push(self.lib[*i as usize].m.clone());
            s.client_names.push(self.lib[*i as usize].name.clone());
        }
        for i in &j.sset {
            s.server.push(self.lib[*i as usize].m.clone());
            s.server_names.push(self.lib[*i as usize].name.clone());
        }
        s.fracs = FRACS[j.fr as usize % FRACS.len()];
        s.cont = j.cont;
        s.seed = j.seed;
        s.pps = j.pps;
        s.max_iter = j.max_iter;
        s.max_len = j.max_len;
        s.only_client = j.only_client;
        s.only_net = j.only_net;
        s.trace_style = j.style;
        s
    }
}

const US: u64 = 1000;
pub fn gadget_traces(maxlen: usize) -> Vec<Vec<Pkt>> {
    let gaps = [0, US, 3 * US, 7 * US];
    let mut v = vec![];
    for l in 1..=maxlen {
        v.extend(traces(l, &gaps));
    }
    v
}

/// Machine sets: every ordered pair from `a` x `b` on the client; a mirrored
/// server-only sub-grid; a both-sides sub-grid.
fn machine_sets(lib: &[Gadget], first: &dyn Fn(&Gadget) -> bool, second: &dyn Fn(&Gadget) -> bool, q: bool) -> Vec<(Vec<u16>, Vec<u16>)> {
    let mut v = vec![];
    let a: Vec<u16> = (0..lib.len() as u16).filter(|i| first(&lib[*i as usize])).collect();
    let b: Vec<u16> = (0..lib.len() as u16).filter(|i| second(&lib[*i as usize])).collect();
    for i in &a {
        v.push((vec![*i], vec![]));
        for j in &b {
            v.push((vec![*i, *j], vec![]));
        }
    }
    // the same pairs on the server only, and split over both sides (full mirror; thinned for the quick tier)
    let st = if q { 2 } else { 1 };
    for (ix, i) in a.iter().enumerate() {
        for (jx, j) in b.iter().enumerate() {
            if (ix + jx) % st != 0 {
                continue;
            }
            v.push((vec![], vec![*i, *j]));
            v.push((vec![*i], vec![*j]));
            if ix % 2 == 0 {
                v.push((vec![*j], vec![*i]));
            }
        }
    }
    {
        // triples on the client: a blocker, a second blocker and a padder
        let blk: Vec<u16> = a.iter().filter(|i| lib[**i as usize].kind == 'b').step_by(if q { 5 } else { 3 }).cloned().collect();
        let pad: Vec<u16> = (0..lib.len() as u16).filter(|i| lib[*i as usize].kind == 'p').step_by(if q { 3 } else { 2 }).collect();
        for x in &blk {
            for y in blk.iter().step_by(if q { 3 } else { 2 }) {
                for z in &pad {
                    v.push((vec![*x, *y, *z], vec![]));
                }
            }
        }
    }
    v
}

/// Lazy Cartesian product: job index -> (set, trace, delay, fraction pair, continue flag, seed).
pub struct Product {
    pub sets: Vec<(Vec<u16>, Vec<u16>)>,
    pub ntraces: usize,
    pub delays: Vec<u64>,
    pub fr: Vec<u8>,
    pub conts: Vec<bool>,
    pub seeds: Vec<u64>,
}
impl Product {
    pub fn len(&self) -> usize {
        self.sets.len() * self.ntraces * self.delays.len() * self.fr.len() * self.conts.len() * self.seeds.len()
    }
    pub fn job(&self, mut i: usize) -> Job {
        let sd = self.seeds[i % self.seeds.len()];
        i /= self.seeds.len();
        let ct = self.conts[i % self.conts.len()];
        i /= self.conts.len();
        let f = self.fr[i % self.fr.len()];
        i /= self.fr.len();
        let d = self.delays[i % self.delays.len()];
        i /= self.delays.len();
        let t = i % self.ntraces;
        i /= self.ntraces;
        let (c, s) = &self.sets[i];
        let mut j = Job::new(t as u32, d, c.clone(), s.clone());
        j.fr = f;
        j.cont = ct;
        j.seed = sd;
        j
    }
}
/// All triples (blocker, blocker, bypass padder) over a focused sub-library: every bypass/replace combination,
/// timeouts {0,1} and durations {1,2}: nested, extending, replacing and back-to-back blocks with a bypass padding
/// firing before, at and after the second block.
fn bypass_interaction_triples(lib: &[Gadget]) -> Vec<(Vec<u16>, Vec<u16>)> {
    let blk: Vec<u16> = (0..lib.len() as u16).filter(|i| { let g = &lib[*i as usize]; g.kind == 'b' && !g.zero_dur && g.name.starts_with("blk(") && g.name.ends_with("None)") && (g.name.contains("to0,") || g.name.contains("to1,")) && (g.name.contains("dur1,") || g.name.contains("dur2,")) }).collect();
    let pad: Vec<u16> = (0..lib.len() as u16).filter(|i| { let g = &lib[*i as usize]; g.kind == 'p' && g.name.contains("by1") && g.name.contains("NormalSent,None") && (g.name.contains("to0,") || g.name.contains("to1,")) }).collect();
    let mut v = vec![];
    for x in &blk {
        for y in &blk {
            for z in &pad {
                v.push((vec![*x, *y, *z], vec![]));
            }
        }
    }
    v
}

fn product(space: &Space, sets: Vec<(Vec<u16>, Vec<u16>)>, delays: &[u64], fr: &[u8], conts: &[bool], seeds: &[u64]) -> Product {
    Product { sets, ntraces: space.traces.len(), delays: delays.to_vec(), fr: fr.to_vec(), conts: conts.to_vec(), seeds: seeds.to_vec() }
}

fn sample_of(sys: &SimSys, evs: &[Ev]) -> Value {
    json!({"client": sys.client_names, "server": sys.server_names, "trace_ns": sys.trace, "delay_ns": sys.delay_ns, "output": evs.iter().take(40).map(ev_string).collect::<Vec<_>>()})
}

fn run_or_panic(sys: &SimSys, stats: &mut Stats) -> Option<Run> {
    match run(sys) {
        Ok(r) => Some(r),
        Err(_) => {
            stats.bump("simulator_panics_skipped");
            None
        }
    }
}

// ---------------------------------------------------------------------------
// C15
// ---------------------------------------------------------------------------
pub fn judge_c15(sys: &SimSys, stats: &mut Stats) -> JobOut {
    let mut out = JobOut::default();
    let Some(r) = run_or_panic(sys, stats) else { return out };
    out.events = r.evs.len() as u64;
    out.out_hash = hash_evs(&r.evs);
    if sys.report_delay_us != (0, 0) || sys.trigger_delay_us != (0, 0) {
        // integration delays: the matching clauses of the statement do not apply, the order of the returned trace does
        stats.bump("runs_with_integration_delays_judged_for_time_order_only");
        if sys.max_len > 0 && r.evs.len() >= sys.max_len {
            stats.bump("runs_with_integration_delays_that_stopped_at_the_length_bound");
        }
        out.nontrivial = r.evs.len() > 2;
        if let Some(k) = (1..r.evs.len()).find(|k| r.evs[*k].t < r.evs[*k - 1].t) {
            out.viols.push(monitors::Viol { sig: "C15:order:integration".into(), msg: format!("returned trace not ordered by time under integration delays: event {k} at {}ns follows one at {}ns", r.evs[k].t, r.evs[k - 1].t), at: k });
        }
        return out;
    }
    let cb = sys.trace.iter().filter(|p| p.1).count();
    let sb = sys.trace.len() - cb;
    let ended = if sys.api_sim { r.evs.len() < sys.max_len } else { sys.max_len == 0 && (sys.max_iter == 0 || r.evs.len() < sys.max_iter) };
    if ended {
        stats.bump("runs_that_ended_by_themselves");
    }
    let pads = r.evs.iter().filter(|e| e.event == TriggerEvent::TunnelSent && e.pad).count();
    let blocks = r.evs.iter().filter(|e| matches!(e.event, TriggerEvent::BlockingBegin { .. })).count();
    out.nontrivial = pads + blocks > 0;
    stats.add("padding_packets_sent", pads as u64);
    if let Some(v) = monitors::c15(&r.evs, sys.delay_ns, cb, sb, ended) {
        out.viols.push(v);
    }
    if out.nontrivial {
        out.sample = Some(sample_of(sys, &r.evs));
    }
    out
}

// ---------------------------------------------------------------------------
// C16 / C17 / C18 (per side, replay bound)
// ---------------------------------------------------------------------------
fn sides(sys: &SimSys, r: &Run, stats: &mut Stats) -> Vec<(bool, Vec<(Ev, Vec<Act>)>, usize)> {
    let mut v = vec![];
    for client in [true, false] {
        let n = if client { sys.client.len() } else { sys.server.len() };
        match replay_side(sys, r, client) {
            Ok(mut s) => {
                // a run that continues after the last packet and stopped by itself (no bound reached) ended because
                // nothing was pending any more: a sentinel far in the future lets the monitors report an action, a
                // timer or a block that was still pending as "time moved past it"
                let natural = sys.cont && sys.max_len == 0 && (sys.max_iter == 0 || r.evs.len() < sys.max_iter) && sys.report_delay_us == (0, 0) && sys.trigger_delay_us == (0, 0);
                if natural {
                    let t = r.evs.last().map(|e| e.t).unwrap_or(0) + 1_000_000_000_000_000;
                    s.push((Ev { t, client, event: TriggerEvent::NormalRecv, pad: false, bypass: false, replace: false }, vec![]));
                    stats.bump("sides_judged_to_the_natural_end_of_the_run");
                }
                v.push((client, s, n))
            }
            Err(_) => stats.bump("replay_failed"),
        }
    }
    v
}
use crate::types::Act;

pub fn judge_c17(sys: &SimSys, stats: &mut Stats) -> JobOut {
    let mut out = JobOut::default();
    let Some(r) = run_or_panic(sys, stats) else { return out };
    out.events = r.evs.len() as u64;
    out.out_hash = hash_evs(&r.evs);
    for (client, stream, n) in sides(sys, &r, stats) {
        let (_f, v, firings) = monitors::c17(&stream, n);
        stats.add("action_timer_firings", firings);
        let superseded: u64 = 0;
        let _ = superseded;
        if firings > 0 {
            out.nontrivial = true;
        }
        if let Some(mut v) = v {
            v.msg = format!("[{}] {}", if client { "client" } else { "server" }, v.msg);
            out.viols.push(v);
            break;
        }
    }
    if out.nontrivial {
        out.sample = Some(sample_of(sys, &r.evs));
    }
    out
}

/// C18 with a constant *reporting* delay configured on one or both sides (no action or trigger delay).
/// The replay binding does not apply here (recorded times of packet events are shifted by the
/// integration), so the oracle is a trace-level one over machines that are pure timer gadgets with a
/// constant duration d and no Cancel: after a reported TimerBegin at t the expiry is t + d (or the later
/// running expiry without replace); TimerEnd comes exactly once, exactly at that expiry, never without a
/// running timer, and simulated time does not move past a pending expiry. TimerBegin / TimerEnd are
/// recorded at the instant they are handed to the framework.
pub fn judge_c18_integ(sys: &SimSys, stats: &mut Stats) -> JobOut {
    use maybenot::action::Action;
    use maybenot::dist::DistType;
    let mut out = JobOut::default();
    let Some(r) = run_or_panic(sys, stats) else { return out };
    out.events = r.evs.len() as u64;
    out.out_hash = hash_evs(&r.evs);
    let tmax = r.evs.iter().map(|e| e.t).max().unwrap_or(0);
    for client in [true, false] {
        let ms = if client { &sys.client } else { &sys.server };
        for (mi, m) in ms.iter().enumerate() {
            // pure timer gadget: every action is the same UpdateTimer with a constant duration
            let mut spec: Option<(bool, u64)> = None;
            let mut pure = true;
            for st in &m.states {
                match st.action {
                    None => {}
                    Some(Action::UpdateTimer { replace, duration, .. }) => match duration.dist {
                        DistType::Uniform { low, high } if low == high && duration.start == 0.0 && duration.max == 0.0 => {
                            let d = (low.round() as u64) * 1000;
                            if spec.is_some() && spec != Some((replace, d)) {
                                pure = false;
                            }
                            spec = Some((replace, d));
                        }
                        _ => pure = false,
                    },
                    Some(_) => pure = false,
                }
            }
            let Some((replace, d)) = spec else { continue };
            if !pure {
                continue;
            }
            let side = if client { "client" } else { "server" };
            let mut running: Option<u64> = None;
            let mut viol: Option<Viol> = None;
            for (k, e) in r.evs.iter().enumerate() {
                if e.client != client {
                    continue;
                }
                match &e.event {
                    TriggerEvent::TimerBegin { machine } if machine.into_raw() == mi => {
                        out.nontrivial = true;
                        stats.bump("timer_begins");
                        if let Some(x) = running {
                            if x < e.t {
                                viol = Some(Viol { sig: "C18:integration:missed-TimerEnd".into(), msg: format!("[{side}] machine {mi}: timer expiring at {x}ns was never reported ended; a new TimerBegin at {}ns", e.t), at: k });
                                break;
                            }
                        }
                        running = Some(match running {
                            Some(x) if !replace => x.max(e.t + d),
                            _ => e.t + d,
                        });
                    }
                    TriggerEvent::TimerEnd { machine } if machine.into_raw() == mi => {
                        stats.bump("timer_ends");
                        match running {
                            Some(x) if x == e.t => running = None,
                            Some(x) => {
                                viol = Some(Viol { sig: "C18:integration:TimerEnd-not-at-expiry".into(), msg: format!("[{side}] machine {mi}: TimerEnd reported at {}ns, the timer set by the last TimerBegin (duration {d}ns, replace {replace}) expires at {x}ns", e.t), at: k });
                                break;
                            }
                            None => {
                                viol = Some(Viol { sig: "C18:integration:TimerEnd-without-timer".into(), msg: format!("[{side}] machine {mi}: TimerEnd reported at {}ns but no timer is running", e.t), at: k });
                                break;
                            }
                        }
                    }
                    _ => {}
                }
            }
            if viol.is_none() {
                if let Some(x) = running {
                    if x < tmax {
                        viol = Some(Viol { sig: "C18:integration:missed-TimerEnd".into(), msg: format!("[{side}] machine {mi}: timer expiring at {x}ns was never reported ended although the run went on to {tmax}ns"), at: r.evs.len() });
                    }
                }
            }
            if let Some(v) = viol {
                out.viols.push(v);
                return out;
            }
        }
    }
    if out.nontrivial {
        out.sample = Some(sample_of(sys, &r.evs));
    }
    out
}

pub fn judge_c18(sys: &SimSys, stats: &mut Stats) -> JobOut {
    if sys.report_delay_us != (0, 0) || sys.trigger_delay_us != (0, 0) {
        return judge_c18_integ(sys, stats);
    }
    let mut out = JobOut::default();
    let Some(r) = run_or_panic(sys, stats) else { return out };
    out.events = r.evs.len() as u64;
    out.out_hash = hash_evs(&r.evs);
    for (client, stream, n) in sides(sys, &r, stats) {
        let (v, begins, ends) = monitors::c18(&stream, n);
        stats.add("timer_begins", begins);
        stats.add("timer_ends", ends);
        if begins > 0 {
            out.nontrivial = true;
        }
        if let Some(mut v) = v {
            v.msg = format!("[{}] {}", if client { "client" } else { "server" }, v.msg);
            out.viols.push(v);
            break;
        }
    }
    if out.nontrivial {
        out.sample = Some(sample_of(sys, &r.evs));
    }
    out
}

pub fn judge_c16(sys: &SimSys, stats: &mut Stats) -> JobOut {
    let mut out = JobOut::default();
    let Some(r) = run_or_panic(sys, stats) else { return out };
    out.events = r.evs.len() as u64;
    out.out_hash = hash_evs(&r.evs);
    for (client, stream, n) in sides(sys, &r, stats) {
        let (fired, v17, _, pbb, zdn) = monitors::c17_full(&stream, n);
        // judge only the prefix on which the replay binding is consistent
        let upto = v17.as_ref().map(|v| v.at).unwrap_or(stream.len());
        if let Some(v) = &v17 {
            stats.bump("runs_judged_on_a_prefix_only");
            if v.sig == "C17:missed-firing" && v.msg.contains("BlockOutgoing") {
                out.viols.push(Viol { sig: "C16:blocking-did-not-begin-when-due".into(), msg: format!("[{}] blocking must begin when a BlockOutgoing action's timeout expires: {}", if client { "client" } else { "server" }, v.msg), at: v.at });
                break;
            }
        }
        let (v, st) = monitors::c16(&stream[..upto], &fired, &pbb, &zdn);
        stats.add("blocking_begins", st.begins);
        stats.add("blocking_ends", st.ends);
        stats.add("packets_sent_during_blocking", st.sent_during_block);
        stats.add("blocking_extended", st.extended);
        stats.add("blocking_replaced", st.replaced);
        if st.begins > 0 {
            out.nontrivial = true;
        }
        if let Some(mut v) = v {
            v.msg = format!("[{}] {}", if client { "client" } else { "server" }, v.msg);
            out.viols.push(v);
            break;
        }
    }
    if out.nontrivial {
        out.sample = Some(sample_of(sys, &r.evs));
    }
    out
}

// ---------------------------------------------------------------------------
// C14
// ---------------------------------------------------------------------------
pub fn judge_c14(sys: &SimSys, api: u8, _stats: &mut Stats) -> JobOut {
    let mut out = JobOut::default();
    let sq = match std::panic::catch_unwind(std::panic::AssertUnwindSafe(|| sys.queue())) {
        Ok(q) => q,
        Err(_) => {
            out.viols.push(Viol { sig: "C14:panic".into(), msg: format!("parse_trace panicked: {}", crate::explore::last_panic()), at: 0 });
            return out;
        }
    };
    // the reference instant: the earliest base event of the queue, computed without the simulator's helper
    let first = match sq.get_first_time() {
        Some(f) => f,
        None => {
            // a non-empty trace always has a first event; run the simulator anyway so that a crash is seen
            let mut q = sq.clone();
            let args = sys.args();
            let r = std::panic::catch_unwind(std::panic::AssertUnwindSafe(|| maybenot_simulator::sim_advanced(&[], &[], &mut q, &args)));
            let msg = match r {
                Err(_) => format!("simulation of a non-empty trace panicked: {}", crate::explore::last_panic()),
                Ok(_) => "the parsed queue of a non-empty trace reports no first event time".to_string(),
            };
            out.viols.push(Viol { sig: "C14:panic".into(), msg, at: 0 });
            return out;
        }
    };
    let raw = if api == 1 {
        let mut q = sq.clone();
        let d = std::time::Duration::from_nanos(sys.delay_ns);
        match std::panic::catch_unwind(std::panic::AssertUnwindSafe(|| maybenot_simulator::sim(&[], &[], &mut q, d, sys.max_len, sys.only_net))) {
            Ok(t) => t,
            Err(_) => {
                out.viols.push(Viol { sig: "C14:panic".into(), msg: format!("sim() panicked: {}", crate::explore::last_panic()), at: 0 });
                return out;
            }
        }
    } else {
        match run_on(sys, &sq) {
            Ok(r) => r.raw,
            Err(e) => {
                out.viols.push(Viol { sig: "C14:panic".into(), msg: format!("sim_advanced() panicked: {e}"), at: 0 });
                return out;
            }
        }
    };
    let evs = to_evs(&raw, first);
    out.events = evs.len() as u64;
    out.out_hash = hash_evs(&evs);
    out.nontrivial = sys.trace.len() > 1;
    let mut got: Vec<(u64, bool, bool)> = vec![];
    for e in &evs {
        match e.event {
            TriggerEvent::TunnelSent => got.push((e.t, e.client, true)),
            TriggerEvent::TunnelRecv => got.push((e.t, e.client, false)),
            TriggerEvent::NormalSent | TriggerEvent::NormalRecv => {
                if sys.only_net {
                    out.viols.push(Viol { sig: "C14:non-network-event-in-filtered-output".into(), msg: format!("only_network_activity output contains {}", ev_string(e)), at: 0 });
                    return out;
                }
            }
            _ => {
                out.viols.push(Viol { sig: "C14:foreign-event".into(), msg: format!("without machines the output contains {}", ev_string(e)), at: 0 });
                return out;
            }
        }
        if e.pad {
            out.viols.push(Viol { sig: "C14:padding".into(), msg: format!("without machines the output contains a padding packet: {}", ev_string(e)), at: 0 });
            return out;
        }
        if sys.only_client && api == 0 && !e.client {
            out.viols.push(Viol { sig: "C14:server-event-in-client-output".into(), msg: format!("only_client_events output contains {}", ev_string(e)), at: 0 });
            return out;
        }
    }
    for w in evs.windows(2) {
        if w[0].t > w[1].t {
            out.viols.push(Viol { sig: "C14:unordered".into(), msg: "output not ordered by time".into(), at: 0 });
            return out;
        }
    }
    got.sort();
    let mut exp = expected_no_machines(&sys.trace, sys.delay_ns);
    if sys.only_client && api == 0 {
        exp.retain(|x| x.1);
    }
    if sys.max_len > 0 && got.len() < exp.len() {
        // a length cap cuts the run short; then the output must be a prefix (in time order) of the expectation
        // (only when the cap was really reached)
        if evs.len() < sys.max_len {
            out.viols.push(Viol { sig: "C14:short".into(), msg: format!("run stopped after {} events, below max_trace_length {}", evs.len(), sys.max_len), at: 0 });
        }
        return out;
    }
    if got != exp {
        let fmt = |v: &Vec<(u64, bool, bool)>| v.iter().map(|(t, c, s)| format!("{}ns {} {}", t, if *c { "C" } else { "S" }, if *s { "TunnelSent" } else { "TunnelRecv" })).collect::<Vec<_>>().join(", ");
        out.viols.push(Viol { sig: "C14:mismatch".into(), msg: format!("network-visible events differ from the input trace: expected [{}], got [{}]", fmt(&exp), fmt(&got)), at: 0 });
    }
    if out.nontrivial {
        out.sample = Some(sample_of(sys, &evs));
    }
    out
}

// ---------------------------------------------------------------------------
// C19
// ---------------------------------------------------------------------------
pub fn judge_c19(sys: &SimSys, stats: &mut Stats) -> JobOut {
    let mut out = JobOut::default();
    let pv = |kind: &str, msg: String| Viol { sig: format!("C19:{kind}"), msg, at: 0 };
    let sq = match std::panic::catch_unwind(std::panic::AssertUnwindSafe(|| sys.queue())) {
        Ok(q) => q,
        Err(_) => {
            out.viols.push(pv("panic:parse_trace", format!("parse_trace panicked: {}", crate::explore::last_panic())));
            return out;
        }
    };
    let a = match run_on(sys, &sq) {
        Ok(r) => r,
        Err(e) => {
            let kind = if e.contains("divide by zero") || e.contains("division by zero") || e.contains("Division by zero") { "panic-divide-by-zero".to_string() } else { format!("panic:{}", first_line(&e).chars().take(60).collect::<String>()) };
            out.viols.push(pv(&kind, format!("simulation panicked: {e}")));
            return out;
        }
    };
    out.events = a.evs.len() as u64;
    out.out_hash = hash_evs(&a.evs);
    out.nontrivial = a.evs.iter().any(|e| e.pad || matches!(e.event, TriggerEvent::BlockingBegin { .. } | TriggerEvent::TimerBegin { .. }));
    // 1. reproducible
    match run_on(sys, &sq) {
        Ok(b) => {
            if a.raw != b.raw {
                out.viols.push(pv("not-reproducible", "two simulations of the same machines, trace, arguments and seed returned different traces".into()));
                return out;
            }
            stats.bump("reproducibility_checks");
        }
        Err(e) => {
            out.viols.push(pv("not-reproducible", format!("second run panicked: {e}")));
            return out;
        }
    }
    // 2. bounds
    if sys.max_len > 0 && a.evs.len() > sys.max_len {
        out.viols.push(pv("length-bound", format!("{} events returned, max_trace_length {}", a.evs.len(), sys.max_len)));
        return out;
    }
    if sys.max_iter > 0 && !sys.only_client && !sys.only_net && a.evs.len() > sys.max_iter {
        out.viols.push(pv("iteration-bound", format!("{} events returned, max_sim_iterations {}", a.evs.len(), sys.max_iter)));
        return out;
    }
    for w in a.evs.windows(2) {
        if w[0].t > w[1].t {
            out.viols.push(pv("unordered", "output not ordered by time".into()));
            return out;
        }
    }
    // 3. filters are projections of the unfiltered trace (same seed, no length cap)
    if sys.only_client || sys.only_net || sys.max_len > 0 {
        let mut full = sys.clone();
        full.only_client = false;
        full.only_net = false;
        full.max_len = 0;
        if sys.max_len > 0 {
            // a length cap counts *filtered* events: compare against an uncapped run without iteration cap effects
            full.max_iter = sys.max_iter;
        }
        match run_on(&full, &sq) {
            Ok(u) => {
                let proj: Vec<&maybenot_simulator::SimEvent> = u
                    .raw
                    .iter()
                    .filter(|e| (!sys.only_client || e.client) && (!sys.only_net || matches!(e.event, TriggerEvent::TunnelSent | TriggerEvent::TunnelRecv)))
                    .collect();
                let ok = if sys.max_len > 0 {
                    a.raw.len() <= proj.len() && a.raw.iter().zip(proj.iter()).all(|(x, y)| x == *y) && (a.raw.len() == sys.max_len || a.raw.len() == proj.len())
                } else {
                    a.raw.len() == proj.len() && a.raw.iter().zip(proj.iter()).all(|(x, y)| x == *y)
                };
                if !ok {
                    out.viols.push(pv("filter-not-a-projection", format!("output with only_client_events={} only_network_activity={} max_trace_length={} ({} events) is not the corresponding sub-sequence{} of the unfiltered trace ({} of {} events qualify)", sys.only_client, sys.only_net, sys.max_len, a.raw.len(), if sys.max_len > 0 { " prefix" } else { "" }, proj.len(), u.raw.len())));
                    return out;
                }
                stats.bump("projection_checks");
            }
            Err(e) => {
                out.viols.push(pv("panic", format!("unfiltered run panicked: {e}")));
                return out;
            }
        }
    }
    if out.nontrivial {
        out.sample = Some(sample_of(sys, &a.evs));
    }
    out
}

// ---------------------------------------------------------------------------
// workers
// ---------------------------------------------------------------------------
fn finish(property: &str, res: SimResult, rule: &str, extra: Value, min_nontrivial: u64, ctx: &WorkerCtx, assumptions: Vec<String>) -> WorkerOut {
    let vacuous = if res.nontrivial_runs < min_nontrivial && ctx.only_unit.is_none() && res.reported.is_empty() { Some(format!("only {} non-trivial runs", res.nontrivial_runs)) } else { None };
    let _ = property;
    let exhaustive = ctx.only_unit.is_none();
    WorkerOut { level: "model_checking", coverage: coverage_json(&res, rule, exhaustive, extra), assumptions, reported: res.reported, vacuous }
}

fn space(q: bool, maxlen: usize) -> Space {
    Space { traces: Arc::new(gadget_traces(maxlen)), lib: Arc::new(s_library(if q { 0 } else { 1 })) }
}
fn bounds(sp: &Space, jobs: usize, delays: &[u64]) -> Value {
    json!({"traces": sp.traces.len(), "max_trace_packets": sp.traces.iter().map(|t| t.len()).max(), "gadget_library": sp.lib.len(), "network_delays_ns": delays, "jobs": jobs, "horizon_max_sim_iterations": 120})
}
const ASSUME: &str = "two-state deterministic gadget machines (S-library), traces of a few packets with gaps {0,1,3,7}us, delays {0,2,5}us, no integration delays; the per-side replay through a fresh Framework with the same seed recovers the actions the simulator acted on (C05 determinism)";

/// Supplementary *sampled* systems: generated 3-6 state machines (all action kinds, counters, limits, signals, END,
/// dyadic probabilities; `fam::corpus_machine`) on one or both sides over the enumerated traces and delays, drawn from
/// a seeded stream. They never decide a verdict alone (every failure is replayed like any other) and are counted
/// separately in the evidence; the exhaustive claim is about the enumerated systems only.
pub fn corpus_systems(sp: &Space, seed: u64, count: usize, delays: &[u64]) -> Vec<SimSys> {
    use rand_core::{RngCore, SeedableRng};
    let mut v = Vec::with_capacity(count);
    for k in 0..count {
        let mut r = rand_xoshiro::Xoshiro256StarStar::seed_from_u64(seed.wrapping_mul(0x9E37_79B9_7F4A_7C15).wrapping_add(k as u64));
        let nc = match r.next_u32() % 8 { 0 => 0, 1..=3 => 1, 4..=6 => 2, _ => 3 };
        let ns = match r.next_u32() % 8 { 0..=3 => 0, 4..=6 => 1, _ => 2 };
        let (nc, ns) = if nc + ns == 0 { (1, 0) } else { (nc, ns) };
        let tr = (r.next_u32() as usize) % sp.traces.len();
        let mut s = SimSys::new(sp.traces[tr].clone(), delays[(r.next_u32() as usize) % delays.len()]);
        for side in 0..2 {
            for _ in 0..(if side == 0 { nc } else { ns }) {
                let ms = r.next_u64();
                let n = 3 + (r.next_u32() % 4) as usize;
                let m = crate::fam::corpus_machine(ms, n);
                let name = format!("corpus[{ms:#x},{n}]");
                if side == 0 {
                    s.client.push(m);
                    s.client_names.push(name);
                } else {
                    s.server.push(m);
                    s.server_names.push(name);
                }
            }
        }
        s.seed = r.next_u64();
        v.push(s);
    }
    v
}

/// One side sends n packets 100 ns apart; a machine on that side blocks outgoing traffic on the first one
/// for longer than the trace lasts, so n - 1 packets wait in the blocked queue together.
pub fn c15_mass_systems(q: bool) -> Vec<SimSys> {
    use maybenot::action::Action;
    use maybenot::event::Event;
    let mut v = vec![];
    let ns: &[usize] = if q { &[1026, 1500] } else { &[1024, 1025, 1026, 1500, 2500, 5000] };
    for &n in ns {
        for client in [true, false] {
            for (bypass, replace) in [(false, false), (true, false)] {
                for delay in [0u64, 2 * US] {
                    let trace: Vec<Pkt> = (0..n as u64).map(|i| (i * 100 + if client { 0 } else { delay }, client)).collect();
                    let mut s = SimSys::new(trace, delay);
                    let m = crate::sim::gadget(Event::NormalSent, Action::BlockOutgoing { bypass, replace, timeout: crate::fam::c(0.0), duration: crate::fam::c(1_000_000.0), limit: None }, None, None);
                    let name = format!("blk(to0,dur1s,by{},rp{})", bypass as u8, replace as u8);
                    if client {
                        s.client.push(m);
                        s.client_names.push(name);
                    } else {
                        s.server.push(m);
                        s.server_names.push(name);
                    }
                    s.max_iter = 0;
                    s.cont = false;
                    v.push(s);
                }
            }
        }
    }
    v
}

pub fn worker_c15(ctx: &WorkerCtx) -> WorkerOut {
    let q = ctx.quick();
    let sp = space(q, if q { 3 } else { 4 });
    let delays = [0, 2 * US, 5 * US];
    let sets = machine_sets(&sp.lib, &|_| true, &|g| q && g.name.len() % 3 == 0 || !q && g.name.len() % 2 == 0, q);
    let pr = product(&sp, sets, &delays, &[0, 1], &[true, false], &[0]);
    let n = pr.len();
    // the product, then packets-per-second limits 1 and 2 on every 41st system
    let build = |i: usize| -> Option<SimSys> {
        if i < n {
            let j = pr.job(i);
            if q && sp.traces[j.trace as usize].len() >= 3 && i % 4 != 0 {
                return None;
            }
            // thorough: traces of up to three packets with every system, four-packet traces with every third one
            if !q && sp.traces[j.trace as usize].len() >= 4 && i % 3 != 0 {
                return None;
            }
            let mut j = j;
            if i % 7 == 0 {
                j.style = 1 + (i / 7 % 3) as u8;
            }
            let mut s = sp.build(&j);
            // seeds at the top of the range (the server's stream is seeded with seed + 1)
            match i % 97 {
                3 => s.seed = u64::MAX,
                5 => s.seed = u64::MAX - 1,
                _ => {}
            }
            Some(s)
        } else {
            // packets-per-second limits 1 and 2, with the product's network delay and with delays
            // (150 ms, 3 s) that exceed the delay the bottleneck adds
            let k = i - n;
            let mut j = pr.job((k / 6) * 41 % n);
            j.pps = Some(1 + k % 2);
            match (k / 2) % 3 {
                1 => j.delay_ns = 150_000_000,
                2 => j.delay_ns = 3_000_000_000,
                _ => {}
            }
            Some(sp.build(&j))
        }
    };
    let total00 = n + 6 * (n / 41);
    // the sim() entry point with machines (only network activity recorded, a length bound the run does not reach): the
    // wrapper must not stop the run before all normal packets are processed
    let napi = n / 5;
    let build = |i: usize| -> Option<SimSys> {
        if i < total00 {
            return build(i);
        }
        let j = pr.job((i - total00) * 5);
        if j.fr != 0 || sp.traces[j.trace as usize].len() > 3 {
            return None;
        }
        let mut s = sp.build(&j);
        s.api_sim = true;
        s.only_net = true;
        s.max_len = 8;
        s.max_iter = 0;
        s.cont = false;
        Some(s)
    };
    let total0 = total00 + napi;
    // many packets held back at once by one long block (the blocked queue grows past a thousand entries)
    let mass = c15_mass_systems(q);
    let corp = corpus_systems(&sp, ctx.seed.wrapping_add(1015), if q { 3000 } else { 60000 }, &delays);
    let total1 = total0 + mass.len();
    let build = |i: usize| -> Option<SimSys> { if i >= total1 { Some(corp[i - total1].clone()) } else if i >= total0 { Some(mass[i - total0].clone()) } else { build(i) } };
    let total2 = total1 + corp.len();
    // integration reporting / trigger delays on the client, the server or both, with every length bound from 0 (none) to 9:
    // only the time order of what is returned is judged
    let nint = if q { n / 401 } else { n / 201 };
    let rds: [(u64, u64); 4] = [(3, 0), (0, 3), (3, 1), (1000, 1000)];
    let build = |i: usize| -> Option<SimSys> {
        if i < total2 {
            return build(i);
        }
        let k = i - total2;
        let j = pr.job((k / 20) * (if q { 401 } else { 201 }) % n);
        if sp.traces[j.trace as usize].len() < 2 {
            return None;
        }
        let mut s = sp.build(&j);
        let rd = rds[(k / 10) % 2 * 2 + (k / 20) % 2];
        if (k / 20) % 5 == 4 { s.trigger_delay_us = rd } else { s.report_delay_us = rd }
        s.max_len = k % 10;
        Some(s)
    };
    let total = total2 + nint * 20;
    let mut b = bounds(&sp, total, &delays);
    b["systems_with_integration_delays_judged_for_time_order_only"] = json!(nint * 20);
    b["systems_with_over_a_thousand_packets_blocked_at_once"] = json!(mass.len());
    b["sampled_systems_of_generated_machines"] = json!(corp.len());
    let res = run_jobs("C15", total, &build, &judge_c15, ctx);
    finish("C15", res, "one job = one closed system (trace x delay x machine sets x fractions x continue flag), run on the real sim_advanced; oracle: time order, exact sent/received matching per side and kind with the network delay, normal packet conservation. distinct_nontrivial = distinct output traces containing padding or blocking", b, 1000, ctx, vec![ASSUME.into()])
}
pub fn worker_c16(ctx: &WorkerCtx) -> WorkerOut {
    let q = ctx.quick();
    let sp = space(q, if q { 3 } else { 4 });
    let delays = [0, 2 * US, 5 * US];
    let mut sets = machine_sets(&sp.lib, &|g| g.kind == 'b', &|g| matches!(g.kind, 'b' | 'p' | 'r') || !q && g.kind == 'x', q);
    let tri = bypass_interaction_triples(&sp.lib);
    // the same triples on the server, and split: one bypassable blocker on one side, (blocker, bypass padder) on the other
    let mut more = vec![];
    for (c, _) in &tri {
        more.push((vec![], c.clone()));
        if sp.lib[c[0] as usize].name.contains("by1") {
            more.push((vec![c[0]], vec![c[1], c[2]]));
            more.push((vec![c[1], c[2]], vec![c[0]]));
        }
    }
    sets.extend(tri);
    sets.extend(more);
    let pr = product(&sp, sets, &delays, &[0], &[true], &[0]);
    let n = pr.len();
    let build = |i: usize| -> Option<SimSys> {
        let j = pr.job(i);
        if q && sp.traces[j.trace as usize].len() >= 3 && i % 2 != 0 {
            return None;
        }
        Some(sp.build(&j))
    };
    let corp = corpus_systems(&sp, ctx.seed.wrapping_add(1016), if q { 3000 } else { 60000 }, &delays);
    let build = |i: usize| -> Option<SimSys> { if i >= n { Some(corp[i - n].clone()) } else { build(i) } };
    let mut b = bounds(&sp, n + corp.len(), &delays);
    b["sampled_systems_of_generated_machines"] = json!(corp.len());
    let res = run_jobs("C16", n + corp.len(), &build, &judge_c16, ctx);
    finish("C16", res, "one job = one closed system with at least one blocking gadget (all four bypass/replace combinations, overlapping and back-to-back blocks, durations from 0), run on the real sim_advanced; per-side monitor: window per the contract, exactly one BlockingEnd at expiry, every TunnelSent inside the window must be bypass-flagged, allowed by every action that started/updated the blocking, and earned by a bypass padding action. distinct_nontrivial = distinct output traces with at least one BlockingBegin", b, 1000, ctx, vec![ASSUME.into()])
}
pub fn worker_c17(ctx: &WorkerCtx) -> WorkerOut {
    let q = ctx.quick();
    let sp = space(q, if q { 3 } else { 4 });
    let delays = [0, 2 * US, 5 * US];
    let mut sets = machine_sets(&sp.lib, &|g| matches!(g.kind, 'p' | 'b' | 'r' | 'c'), &|g| matches!(g.kind, 'p' | 'b' | 'r' | 'c' | 'x'), q);
    // internal-timer gadgets at the lower machine index next to action-timer gadgets (several kinds of action in one trigger batch)
    let timers: Vec<u16> = (0..sp.lib.len() as u16).filter(|i| sp.lib[*i as usize].kind == 't').collect();
    let actors: Vec<u16> = (0..sp.lib.len() as u16).filter(|i| matches!(sp.lib[*i as usize].kind, 'r' | 'c') || sp.lib[*i as usize].kind == 'p' && sp.lib[*i as usize].name.contains("rp0")).collect();
    for t in &timers {
        for a in &actors {
            sets.push((vec![*t, *a], vec![]));
            sets.push((vec![*a, *t], vec![]));
        }
    }
    let pr = product(&sp, sets, &delays, &[0], &[true], &[0]);
    let n = pr.len();
    let build = |i: usize| -> Option<SimSys> {
        let j = pr.job(i);
        if q && sp.traces[j.trace as usize].len() >= 3 && i % 2 != 0 {
            return None;
        }
        Some(sp.build(&j))
    };
    let corp = corpus_systems(&sp, ctx.seed.wrapping_add(1017), if q { 3000 } else { 60000 }, &delays);
    let build = |i: usize| -> Option<SimSys> { if i >= n { Some(corp[i - n].clone()) } else { build(i) } };
    let mut b = bounds(&sp, n + corp.len(), &delays);
    b["sampled_systems_of_generated_machines"] = json!(corp.len());
    let res = run_jobs("C17", n + corp.len(), &build, &judge_c17, ctx);
    finish("C17", res, "one job = one closed system with padding/blocking/cancel gadgets (timeouts from 0, actions re-issued before they fire, cancels of each timer kind, several machines per side); per-side, per-machine monitor of pending action vs reported PaddingSent/BlockingBegin. distinct_nontrivial = distinct output traces with at least one action-timer firing", b, 1000, ctx, vec![ASSUME.into()])
}
pub fn worker_c18(ctx: &WorkerCtx) -> WorkerOut {
    let q = ctx.quick();
    let sp = space(q, if q { 3 } else { 4 });
    let delays = [0, 2 * US, 5 * US];
    let mut sets = machine_sets(&sp.lib, &|g| g.kind == 't' || g.name.starts_with("cancel") && g.name.contains("own1"), &|g| matches!(g.kind, 't' | 'c') || g.kind == 'p' && g.name.contains("to1"), q);
    // a timer expiring while outgoing traffic is blocked (the blocking expiry competes with the timer in pick_next),
    // blocker on the same side in both machine orders, and on the other side
    {
        let timers: Vec<u16> = (0..sp.lib.len() as u16).filter(|i| sp.lib[*i as usize].kind == 't').collect();
        let blks: Vec<u16> = (0..sp.lib.len() as u16).filter(|i| { let g = &sp.lib[*i as usize]; g.kind == 'b' && g.name.starts_with("blk(to0") && !g.zero_dur && (g.name.contains("dur2") || g.name.contains("dur5")) && g.name.ends_with("None)") }).collect();
        for (k, t) in timers.iter().enumerate() {
            for (l, b) in blks.iter().enumerate() {
                if q && (k + l) % 2 != 0 {
                    continue;
                }
                sets.push((vec![*t, *b], vec![]));
                sets.push((vec![*b, *t], vec![]));
                sets.push((vec![], vec![*t, *b]));
                sets.push((vec![*t], vec![*b]));
            }
        }
    }
    let pr = product(&sp, sets, &delays, &[0], &[true], &[0]);
    let n = pr.len();
    // timer gadgets under a constant reporting delay (integration) on the client, the server, or both
    let pure: Vec<u16> = (0..sp.lib.len() as u16).filter(|i| sp.lib[*i as usize].name.starts_with("tmr(")).collect();
    let rds: [(u64, u64); 4] = [(3, 0), (0, 3), (3, 1), (1000, 1000)];
    let mut integ: Vec<(Job, (u64, u64))> = vec![];
    // (the same list is run a second time with these values as *trigger* delays instead: a trigger delay postpones
    // scheduled padding / blocking actions, never the internal timer)
    for (k, t) in pure.iter().enumerate() {
        let other = pure[(k * 7 + 3) % pure.len()];
        for (cs, ss) in [(vec![*t], vec![]), (vec![], vec![*t]), (vec![*t, other], vec![]), (vec![*t], vec![other])] {
            for tr in 0..sp.traces.len() as u32 {
                if sp.traces[tr as usize].len() >= 3 && (q || (tr as usize + k) % 2 != 0) {
                    continue;
                }
                for (di, d) in [0u64, 2 * US].iter().enumerate() {
                    let rd = rds[(k + tr as usize + di) % rds.len()];
                    integ.push((Job::new(tr, *d, cs.clone(), ss.clone()), rd));
                }
            }
        }
    }
    let build = |i: usize| -> Option<SimSys> {
        if i >= n {
            let k = i - n;
            let (j, rd) = &integ[k % integ.len()];
            let mut s = sp.build(j);
            if k < integ.len() {
                s.report_delay_us = *rd;
            } else {
                s.trigger_delay_us = *rd;
            }
            return Some(s);
        }
        let j = pr.job(i);
        if q && sp.traces[j.trace as usize].len() >= 3 && i % 2 != 0 {
            return None;
        }
        Some(sp.build(&j))
    };
    let corp = corpus_systems(&sp, ctx.seed.wrapping_add(1018), if q { 3000 } else { 60000 }, &delays);
    let total0 = n + 2 * integ.len();
    let build = |i: usize| -> Option<SimSys> { if i >= total0 { Some(corp[i - total0].clone()) } else { build(i) } };
    let total = total0 + corp.len();
    let mut b = bounds(&sp, total, &delays);
    b["sampled_systems_of_generated_machines"] = json!(corp.len());
    b["systems_with_a_reporting_delay_integration"] = json!(integ.len());
    b["systems_with_a_trigger_delay_integration"] = json!(integ.len());
    b["reporting_delays_us_client_server"] = json!(rds.iter().map(|x| vec![x.0, x.1]).collect::<Vec<_>>());
    let res = run_jobs("C18", total, &build, &judge_c18, ctx);
    finish("C18", res, "one job = one closed system with UpdateTimer gadgets (both replace settings, durations from 0, repeated updates at one instant, cancels of the internal timer, several machines, both sides, timers expiring while a block is active); per-machine monitor of the timer expiry per the UpdateTimer contract vs reported TimerBegin/TimerEnd. A further set of systems runs pure timer gadgets under a constant integration reporting delay, judged by a trace-level monitor (expiry = last TimerBegin + constant duration). distinct_nontrivial = distinct output traces with at least one TimerBegin", b, 1000, ctx, vec![ASSUME.into(), "integration systems: constant reporting delay only (no action or trigger delay), pure timer gadgets".into()])
}

pub fn c14_traces(maxlen: usize) -> Vec<Vec<Pkt>> {
    let gaps = [0u64, 1, 1_000, 100_000_000, 100_000_001, 1_000_000_000];
    let mut v = vec![];
    for l in 1..=maxlen {
        v.extend(traces(l, &gaps));
    }
    v
}
/// Longer, structured traces: periodic streams and bursts in both directions, sized to reach the
/// packets-per-second logic (window counting in parse_trace, the bottleneck's 1 s window).
pub fn c14_long_traces(q: bool) -> Vec<Vec<Pkt>> {
    let ms = 1_000_000u64;
    let mut v = vec![];
    let periods: &[u64] = if q { &[10 * ms, 99 * ms, 100 * ms, 110 * ms, 250 * ms] } else { &[ms, 10 * ms, 50 * ms, 99 * ms, 100 * ms, 101 * ms, 110 * ms, 250 * ms, 1000 * ms] };
    let counts: &[usize] = if q { &[11, 21, 40] } else { &[5, 11, 12, 21, 40, 80] };
    // direction patterns: all sent, all received, alternating, two sent one received, interleaved offset streams
    for p in periods {
        for n in counts {
            for pat in 0..6 {
                let mut t: Vec<Pkt> = vec![];
                for i in 0..*n {
                    let (time, dir) = match pat {
                        0 => (i as u64 * p, true),
                        1 => (i as u64 * p, false),
                        2 => (i as u64 * p, i % 2 == 0),
                        3 => (i as u64 * p, i % 3 != 2),
                        4 => ((i / 2) as u64 * p + if i % 2 == 0 { 0 } else { p / 2 }, i % 2 == 0),
                        _ => ((i / 2) as u64 * p, i % 2 == 0), // both directions at identical instants
                    };
                    t.push((time, dir));
                }
                v.push(t);
            }
        }
    }
    // a dense burst followed by a sparser group, per direction and mixed
    for (burst, span) in [(30usize, 30 * ms), (15, 10 * ms), (12, 100 * ms)] {
        for (later, gap) in [(2usize, 500 * ms), (1, 2000 * ms), (3, 150 * ms)] {
            for pat in 0..3 {
                let mut t: Vec<Pkt> = vec![];
                for i in 0..burst {
                    t.push((i as u64 * span / burst as u64, match pat { 0 => true, 1 => false, _ => i % 2 == 0 }));
                }
                for j in 0..later {
                    t.push((span + gap + j as u64 * ms / 2, match pat { 0 => true, 1 => false, _ => j % 2 == 1 }));
                }
                v.push(t);
            }
        }
    }
    v
}

/// The largest number of packets one direction of the trace has within any closed one-second window
/// (at least the count of any window convention an implementation may use).
pub fn peak_per_second(t: &[Pkt]) -> usize {
    let mut best = 1;
    for dir in [true, false] {
        let ts: Vec<u64> = t.iter().filter(|p| p.1 == dir).map(|p| p.0).collect();
        for (i, x) in ts.iter().enumerate() {
            let c = ts[..=i].iter().filter(|y| x.abs_diff(**y) <= 1_000_000_000).count();
            best = best.max(c);
        }
    }
    best
}

pub fn worker_c14(ctx: &WorkerCtx) -> WorkerOut {
    let q = ctx.quick();
    let mut all_traces = c14_traces(if q { 5 } else { 6 });
    let n_short = all_traces.len();
    all_traces.extend(c14_long_traces(q));
    let sp = Space { traces: Arc::new(all_traces), lib: Arc::new(vec![]) };
    let delays = [0u64, 1, 10_000_000];
    let mut jobs = vec![];
    let peaks: Vec<usize> = sp.traces.iter().map(|t| peak_per_second(t)).collect();
    for t in 0..sp.traces.len() as u32 {
        for d in delays {
            for (oc, on) in [(false, false), (true, false), (false, true), (true, true)] {
                for ml in [0usize, 1_000_000] {
                    let mut j = Job::new(t, d, vec![], vec![]);
                    j.only_client = oc;
                    j.only_net = on;
                    j.max_len = ml;
                    j.max_iter = 0;
                    j.cont = ml == 0;
                    jobs.push(j);
                }
            }
            // a length bound equal to the number of events the filtered trace must have: the run must reach it
            {
                let n = sp.traces[t as usize].len();
                for (oc, on, ml) in [(true, true, n), (true, false, 2 * n), (false, true, 2 * n)] {
                    let mut j = Job::new(t, d, vec![], vec![]);
                    j.only_client = oc;
                    j.only_net = on;
                    j.max_len = ml;
                    j.max_iter = 0;
                    j.cont = false;
                    jobs.push(j);
                }
            }
            for on in [false, true] {
                let mut j = Job::new(t, d, vec![], vec![]);
                j.api = 1;
                j.only_net = on;
                j.max_iter = 0;
                j.style = (t % 4) as u8;
                jobs.push(j);
            }
            // the other ways of writing the same trace ("sn"/"rn", interleaved "sp"/"rp" lines the parser ignores)
            for st in 1..4u8 {
                let mut j = Job::new(t, d, vec![], vec![]);
                j.max_iter = 0;
                j.style = st;
                jobs.push(j);
            }
            // line endings and the optional size column: "\r\n", "time,direction,size", a terminated last line
            for (k, st) in [4u8, 8, 12, 16, 28].iter().enumerate() {
                let mut j = Job::new(t, d, vec![], vec![]);
                j.max_iter = 0;
                j.style = st | ((t as usize + k) % 4) as u8;
                j.api = (k % 2) as u8;
                jobs.push(j);
            }
            // an explicit packets-per-second limit that the trace reaches but never exceeds, and one above it
            for extra in [0usize, 1] {
                let mut j = Job::new(t, d, vec![], vec![]);
                j.max_iter = 0;
                j.pps = Some(peaks[t as usize] + extra);
                jobs.push(j);
            }
        }
    }
    let n = jobs.len();
    let jobs0: Vec<Job> = jobs.iter().filter(|j| j.api == 0).cloned().collect();
    let res = run_jobs("C14", jobs0.len(), &|i| Some(sp.build(&jobs0[i])), &|s, st| judge_c14(s, 0, st), ctx);
    // the sim() API runs (api = 1) need their own judge call: run them as a second pass
    let jobs1: Vec<Job> = jobs.iter().filter(|j| j.api == 1).cloned().collect();
    let res1 = run_jobs("C14", jobs1.len(), &|i| Some(sp.build(&jobs1[i])), &|s, st| judge_c14(s, 1, st), ctx);
    let mut out = finish("C14", res, "one job = one input trace (all traces up to the length bound over gaps {0,1ns,1us,100ms,100ms+1ns,1s} and both directions) x network delay x API (sim, sim_advanced) x every filter combination x length cap, without machines; oracle: the multiset of network-visible (time, side, sent/received) events equals the input trace exactly, mirrored and shifted by the delay at the server. distinct_nontrivial = distinct output traces of inputs with more than one packet", json!({"traces": sp.traces.len(), "delays_ns": delays, "jobs": n, "sim_api_jobs": jobs1.len()}), 1000, ctx, vec!["no integration delays; the packets-per-second bottleneck derived by parse_trace never binds for these traces".into()]);
    out.reported.extend(res1.reported);
    out.coverage["sim_api_runs"] = json!(res1.runs);
    out.coverage["short_traces_enumerated_exhaustively"] = json!(n_short);
    out.coverage["long_structured_traces"] = json!(sp.traces.len() - n_short);
    out
}

/// Many pending aggregate delays coming due at once (no machines, a packets-per-second limit of 1, a network delay
/// far above the trace's span, one last packet long after): run on a 2 MiB stack.
pub fn c19_deep_systems(q: bool) -> Vec<SimSys> {
    let mut v = vec![];
    let ns: &[usize] = if q { &[12_000] } else { &[3_000, 12_000, 60_000] };
    for &n in ns {
        for client in [true, false] {
            let delay = 1_000_000_000_000u64;
            let off = if client { 0 } else { delay };
            let mut trace: Vec<Pkt> = (0..n as u64).map(|i| (off + i * 2_000_000, client)).collect();
            trace.push((off + 100_000 * 1_000_000_000, client));
            let mut s = SimSys::new(trace, delay);
            s.pps = Some(1);
            s.max_iter = 10 * n + 100;
            s.cont = false;
            s.seed = 1;
            s.small_stack = true;
            v.push(s);
        }
    }
    v
}

pub fn worker_c19(ctx: &WorkerCtx) -> WorkerOut {
    let q = ctx.quick();
    let mut sp = space(q, 3);
    {
        // plus long periodic / bursty traces that reach the packets-per-second logic and the aggregate delays
        let mut t = (*sp.traces).clone();
        t.extend(c14_long_traces(true).into_iter().filter(|x| x.len() <= 21).step_by(if q { 3 } else { 1 }));
        sp.traces = Arc::new(t);
    }
    // delays chosen against the blocking durations {1,2,5} us: 3D < B < 4D, B < D, B > 4D all occur
    let delays = [0, 300, 600, 1500, 2 * US];
    let all: Vec<u16> = (0..sp.lib.len() as u16).collect();
    let mut sets: Vec<(Vec<u16>, Vec<u16>)> = vec![(vec![], vec![])];
    for (k, i) in all.iter().enumerate() {
        for r in 0..(if q { 4 } else { 12 }) {
            let j = all[(k * 31 + 7 + r * 53) % all.len()];
            let l = all[(k * 17 + 3 + r * 29) % all.len()];
            sets.push((vec![*i, j], vec![]));
            sets.push((vec![*i], vec![l]));
            if r % 2 == 0 {
                sets.push((vec![], vec![*i, l]));
                sets.push((vec![*i, j], vec![l]));
            }
        }
    }
    // all ordered pairs of blockers and padders (every flag combination, re-issuing variants): blocking x padding
    // replacement is where the simulator's unwraps and assertions live
    {
        let bp: Vec<u16> = all.iter().cloned().filter(|i| matches!(sp.lib[*i as usize].kind, 'b' | 'p') && !sp.lib[*i as usize].name.contains("to3")).collect();
        for x in &bp {
            for y in &bp {
                if sp.lib[*x as usize].kind != sp.lib[*y as usize].kind {
                    sets.push((vec![*x, *y], vec![]));
                    if (*x + *y) % 3 == 0 {
                        sets.push((vec![], vec![*x, *y]));
                    }
                }
            }
        }
    }
    // every set also with a randomised gadget added on the client or the server, so that the seed matters
    let qs: Vec<u16> = (0..sp.lib.len() as u16).filter(|i| sp.lib[*i as usize].kind == 'q').collect();
    let mut with_q = vec![];
    for (k, (c, s2)) in sets.iter().enumerate().step_by(if q { 5 } else { 2 }) {
        let g = qs[k % qs.len()];
        let mut c2 = c.clone();
        let mut s3 = s2.clone();
        if k % 2 == 0 { c2.push(g) } else { s3.push(g) }
        with_q.push((c2, s3));
    }
    for g in &qs {
        for h in &qs {
            with_q.push((vec![*g], vec![*h]));
            with_q.push((vec![*g, *h], vec![]));
        }
    }
    sets.extend(with_q);
    let basep = product(&sp, sets, &delays, &[0, 1], &[true, false], &[0]);
    let pps_menu: [Option<usize>; 8] = [None, Some(1), Some(2), Some(10), Some(1000), Some(u32::MAX as usize), Some(1usize << 32), Some(usize::MAX)];
    // lazily decoded: base index i x slot (0 = grid point, 1..=3 = huge stop bounds on every 211th, 4 = plain run with a pps limit on every 4th)
    const SLOTS: usize = 5;
    let nbase = basep.len();
    let job_at = |idx: usize| -> Option<Job> {
        let (i, slot) = (idx / SLOTS, idx % SLOTS);
        let j = basep.job(i);
        if q && (sp.traces[j.trace as usize].len() == 3 && i % 2 != 0 || i % 5 >= 2) {
            return None;
        }
        if sp.traces[j.trace as usize].len() > 4 && i % 3 != 0 {
            return None;
        }
        match slot {
            0 => {
                // rotate through the stop / filter / pps / seed grid; every grid point is hit by many systems
                let g = i % 96;
                let mut k = j;
                k.pps = pps_menu[g % 8];
                k.only_client = (g / 8) % 2 == 1;
                k.only_net = (g / 16) % 2 == 1;
                k.max_len = [0usize, 1, 5][(g / 32) % 3];
                k.max_iter = [1usize, 7, 120][(i / 96) % 3];
                k.seed = [0u64, 1, u64::MAX, 7][(i / 7) % 4];
                k.style = (i / 11 % 4) as u8;
                Some(k)
            }
            1..=3 if i % 211 == 0 => {
                // bounds far above anything the run can reach are bounds like any other (not allocation sizes)
                let mut u = j;
                u.max_len = [usize::MAX, 1usize << 48, 1usize << 33][slot - 1];
                u.max_iter = 120;
                u.cont = (i / 211) % 2 == 0;
                Some(u)
            }
            4 if i % 4 == 0 => {
                // the plain unfiltered run with an explicit pps limit
                let mut u = j;
                u.pps = pps_menu[(i / 4) % 8];
                u.seed = [0u64, u64::MAX, 1][i % 3];
                Some(u)
            }
            _ => None,
        }
    };
    let deep = c19_deep_systems(q);
    let nj = nbase * SLOTS;
    let mut b = bounds(&sp, nj + deep.len(), &delays);
    b["systems_with_thousands_of_pending_aggregate_delays_on_a_2MiB_stack"] = json!(deep.len());
    let corp = corpus_systems(&sp, ctx.seed.wrapping_add(1019), if q { 3000 } else { 60000 }, &delays);
    b["sampled_systems_of_generated_machines"] = json!(corp.len());
    let nd = nj + deep.len();
    let res = run_jobs("C19", nd + corp.len(), &|i| if i < nj { job_at(i).map(|j| sp.build(&j)) } else if i < nd { Some(deep[i - nj].clone()) } else { Some(corp[i - nd].clone()) }, &judge_c19, ctx);
    finish("C19", res, "one job = one closed system x packets-per-second limit {none,1,2,10,1000,2^32-1,2^32,usize::MAX} x max_trace_length {0,1,5, and 2^33, 2^48, usize::MAX on every 211th system} x max_sim_iterations {1,7,120} x both continue settings x all four filter combinations x seeds {0, 1, 7, u64::MAX} (client seed s, server seed s+1 wrapping); oracle: no panic, two runs on clones of the same queue identical, filtered outputs equal the projection (prefix under a length cap) of the unfiltered trace, stop bounds respected, time ordered. distinct_nontrivial = distinct output traces containing padding, blocking or timers", b, 1000, ctx, vec![ASSUME.into()])
}

pub fn replay(v: &Value) -> Result<Option<String>, String> {
    let sys = SimSys::from_json(&v["system"])?;
    let prop = v["property"].as_str().unwrap_or("");
    let run1 = || -> Vec<Viol> {
        let mut st = Stats::default();
        match prop {
            "C14" => {
                let mut x = judge_c14(&sys, 0, &mut st).viols;
                x.extend(judge_c14(&sys, 1, &mut st).viols);
                x
            }
            "C15" => judge_c15(&sys, &mut st).viols,
            "C16" => judge_c16(&sys, &mut st).viols,
            "C17" => judge_c17(&sys, &mut st).viols,
            "C18" => judge_c18(&sys, &mut st).viols,
            _ => judge_c19(&sys, &mut st).viols,
        }
    };
    // show the run: output events, and per side the actions the framework returned at each event
    if let Ok(r) = run(&sys) {
        println!("simulator output ({} events):", r.evs.len());
        let cs = replay_side(&sys, &r, true).unwrap_or_default();
        let ss = replay_side(&sys, &r, false).unwrap_or_default();
        let (mut ci, mut si) = (0, 0);
        for e in &r.evs {
            let acts = if e.client {
                ci += 1;
                cs.get(ci - 1).map(|x| x.1.clone())
            } else {
                si += 1;
                ss.get(si - 1).map(|x| x.1.clone())
            };
            println!("  {}   -> {:?}", ev_string(e), acts.unwrap_or_default());
        }
    }
    if prop == "C19" {
        // the property is reproducibility itself: a system whose behaviour differs from run to run may pass
        // one judgement and fail the next, so any failing judgement out of four confirms the report
        for _ in 0..4 {
            if let Some(v) = run1().first() {
                return Ok(Some(format!("{}: {}", v.sig, v.msg)));
            }
        }
        return Ok(None);
    }
    let a = run1();
    let b = run1();
    let sa: Vec<&String> = a.iter().map(|v| &v.sig).collect();
    let sb: Vec<&String> = b.iter().map(|v| &v.sig).collect();
    if sa != sb {
        return Err(format!("replay is not deterministic: {:?} vs {:?}", sa, sb));
    }
    Ok(a.first().map(|v| format!("{}: {}", v.sig, v.msg)))
}
