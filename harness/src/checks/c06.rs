//! C06 (engine E2) — transitions follow the declared probabilities over the
//! whole RNG output space: for every probability vector of a corpus, and with
//! every one of the 13 events of a state carrying a *different* vector, all 2^23
//! distinct values of the uniform draw are fed through the real
//! `State::sample_state`; the exact outcome counts must equal p_i * 2^23 up to
//! the resolution of the draw. Probe machines then tie the framework's
//! observable effect (action / END / SIGNAL) to the sampled target, word by word.
use super::*;
use crate::clock::VT;
use crate::fam::{self, c, mk, st_map};
use crate::types::*;
use enum_map::{enum_map, EnumMap};
use maybenot::action::Action;
use maybenot::constants::{STATE_END, STATE_SIGNAL};
use maybenot::event::{Event, TriggerEvent};
use maybenot::state::{State, Trans};
use maybenot::Framework;
use rand_core::RngCore;
use std::sync::atomic::{AtomicUsize, Ordering};
use std::sync::Arc;

pub const OUTCOMES: u64 = 1 << 23;

/// An RNG whose first output is the enumerated word (one draw outcome) and whose later outputs are
/// all zero: a transition decision that consumes more than its one uniform draw, or uses a later
/// draw, gets visibly different shares. Fields: (word, outputs produced so far).
#[derive(Clone)]
pub struct OneWord(pub u32, pub u32);
impl OneWord {
    fn word(&mut self) -> u32 {
        let w = if self.1 == 0 || self.1 == u32::MAX { self.0 } else { 0 }; // u32::MAX: the same word for ever
        self.1 = self.1.saturating_add(1);
        w
    }
}
impl RngCore for OneWord {
    fn next_u32(&mut self) -> u32 {
        self.word()
    }
    fn next_u64(&mut self) -> u64 {
        let w = self.word();
        ((w as u64) << 32) | w as u64
    }
    fn fill_bytes(&mut self, d: &mut [u8]) {
        for b in d.iter_mut() {
            *b = self.0 as u8;
        }
    }
    fn try_fill_bytes(&mut self, d: &mut [u8]) -> Result<(), rand_core::Error> {
        self.fill_bytes(d);
        Ok(())
    }
}
impl std::fmt::Debug for OneWord {
    fn fmt(&self, f: &mut std::fmt::Formatter<'_>) -> std::fmt::Result {
        write!(f, "W")
    }
}

fn prob_menu() -> Vec<f32> {
    let e = f32::EPSILON / 2.0; // 2^-24
    // incl. sums just below 1: 1 - 2^-20, 1 - 2^-21 (alone), 0.5 + (0.5 - 2^-21), 0.25 + 0.5 + (0.25 - 2^-22)
    vec![1.0, 0.5, 0.25, 1.0 / 3.0, 0.1, 0.3, 0.7, 1.0 - e, e * 2.0, 1.1920929e-7 / 2.0, 1e-9, 0.9, 0.125, 0.2, 1.0 - 16.0 * e, 1.0 - 8.0 * e, 0.5 - 8.0 * e, 0.25 - 4.0 * e]
}
const TARGETS: [usize; 6] = [0, 1, STATE_END, 2, STATE_SIGNAL, 3];

/// Validated probability vectors of length 1..=5 over the menu (ordered, with repetition), strided.
pub fn corpus(stride: usize) -> Vec<Vec<Trans>> {
    let menu = prob_menu();
    let mut out = vec![];
    let mut k = 0usize;
    for len in 1..=5usize {
        let total = menu.len().pow(len as u32);
        let st = match len {
            1 | 2 => 1,
            3 => stride.min(7).max(1),
            4 => stride * 12,
            _ => stride * 160,
        };
        for code in (0..total).step_by(st) {
            let mut x = code;
            let mut v = vec![];
            for i in 0..len {
                let p = menu[x % menu.len()];
                x /= menu.len();
                v.push(Trans(TARGETS[(i + k) % TARGETS.len()], p));
            }
            // distinct targets by construction (rotation), validity by the real validator
            let mut t: EnumMap<Event, Vec<Trans>> = enum_map! { _ => vec![] };
            t[Event::NormalSent] = v.clone();
            if State::new(t).validate(4).is_ok() {
                out.push(v);
                k += 1;
            }
        }
    }
    out
}

pub struct VecResult {
    pub counts: Vec<u64>,
    pub none: u64,
    pub other: u64,
}
/// All 2^23 draw outcomes for `event` of `state`; counts per declared target.
pub fn enumerate(state: &State, event: Event, targets: &[usize], lo: u64, hi: u64) -> VecResult {
    let mut counts = vec![0u64; targets.len()];
    let mut none = 0u64;
    let mut other = 0u64;
    let mut rng = OneWord(0, 0);
    for k in lo..hi {
        rng.0 = (k as u32) << 9;
        rng.1 = 0;
        match state.sample_state(event, &mut rng) {
            None => none += 1,
            Some(t) => match targets.iter().position(|x| *x == t) {
                Some(i) => counts[i] += 1,
                None => other += 1,
            },
        }
    }
    VecResult { counts, none, other }
}

fn judge(v: &[Trans], r: &VecResult, total: u64) -> Result<(), String> {
    // The code may accumulate the vector in any order/precision: a boundary computed from j f32 additions is off
    // by at most j/4 outcomes (each addition rounds by <= 2^-25 = 1/4 outcome) plus one outcome for the
    // boundary convention (< or <=) - "the resolution of the draw". A count lies between two boundaries.
    if r.other > 0 {
        return Err(format!("{} draws chose a target that the vector does not declare", r.other));
    }
    let mut sum = 0f64;
    for (i, t) in v.iter().enumerate() {
        let exact = t.1 as f64 * total as f64;
        sum += t.1 as f64;
        let tol = 2.0 + (i as f64 + 1.0) / 2.0;
        if (r.counts[i] as f64 - exact).abs() > tol {
            return Err(format!("target {} declared with probability {} is chosen on {} of {} equally likely draws, expected {:.1} (+-{})", t.0, t.1, r.counts[i], total, exact, tol));
        }
        // strict clause only for a mathematically valid vector (exact sum <= 1): a p = 1 entry is then the
        // only entry. Vectors such as [1e-9, 1.0] pass validation only because their f32 sum rounds to 1;
        // for them the share rule above (within the resolution of the draw) is what the property states.
        let exact_sum: f64 = v.iter().map(|x| x.1 as f64).sum();
        if t.1 == 1.0 && exact_sum <= 1.0 && r.counts[i] != total {
            return Err(format!("a transition declared with probability 1 was taken on {} of {} draws only", r.counts[i], total));
        }
    }
    let exact_none = ((1.0 - sum) * total as f64).max(0.0);
    let tol = 1.0 + v.len() as f64 / 4.0;
    if (r.none as f64 - exact_none).abs() > tol {
        return Err(format!("no transition on {} of {} draws, expected {:.1} (+-{}) for the remaining probability {}", r.none, total, exact_none, tol, 1.0 - sum));
    }
    Ok(())
}

/// Serde mirror of `Machine` / `State` (same field order and types), used to produce a machine string
/// *without* going through `State::new`: stored strings may come from any version of the library, and a state
/// obtained by parsing must sample exactly like one built through the constructor.
#[derive(serde::Serialize)]
struct StateMirror {
    action: Option<Action>,
    counter: (Option<maybenot::counter::Counter>, Option<maybenot::counter::Counter>),
    transitions: [Option<Vec<Trans>>; 13],
}
#[derive(serde::Serialize)]
struct MachineMirror {
    allowed_padding_packets: u64,
    max_padding_frac: f64,
    allowed_blocked_microsec: u64,
    max_blocking_frac: f64,
    states: Vec<StateMirror>,
}
/// The state of `state_of(group)` as obtained by parsing a string that encodes the vectors in the given order.
fn parsed_state_of(group: &[Vec<Trans>]) -> Result<State, String> {
    use std::str::FromStr;
    const NONE: Option<Vec<Trans>> = None;
    let mut tr = [NONE; 13];
    for (i, v) in group.iter().enumerate().take(13) {
        tr[i] = Some(v.clone());
    }
    let empty = || StateMirror { action: None, counter: (None, None), transitions: [NONE; 13] };
    let m = MachineMirror { allowed_padding_packets: 0, max_padding_frac: 0.0, allowed_blocked_microsec: 0, max_blocking_frac: 0.0, states: vec![StateMirror { action: None, counter: (None, None), transitions: tr }, empty(), empty(), empty()] };
    let bin = bincode::Options::serialize(bincode::DefaultOptions::new(), &m).map_err(|e| e.to_string())?;
    let s = super::c11::string_of_bin(&bin);
    let parsed = maybenot::Machine::from_str(&s).map_err(|e| format!("a machine string encoding validated vectors does not parse: {e}"))?;
    Ok(parsed.states[0].clone())
}

/// A state whose 13 events carry 13 different vectors (vector i on event i), or none.
fn state_of(group: &[Vec<Trans>]) -> State {
    let mut t: EnumMap<Event, Vec<Trans>> = enum_map! { _ => vec![] };
    for (i, e) in Event::iter().enumerate() {
        if let Some(v) = group.get(i) {
            t[*e] = v.clone();
        }
    }
    State::new(t)
}

/// Framework probe: machine with 4 states with distinguishable actions; a second machine that
/// reports Signal delivery through an action. For every word: the observable effect must be the one of
/// the target `sample_state` returns for that word.
fn probe(v: &[Trans], lo: u64, hi: u64) -> Result<u64, String> {
    use Event::*;
    let mut t0: EnumMap<Event, Vec<Trans>> = enum_map! { _ => vec![] };
    t0[NormalRecv] = v.to_vec();
    let budget = (1_000_000, 1.0, 1_000_000_000, 1.0);
    let s0 = st_map(t0.clone(), Some(fam::pad(false, false, 10.0, None)), (None, None));
    let s1 = st_map(enum_map! { _ => vec![] }, Some(fam::pad(true, false, 11.0, None)), (None, None));
    let s2 = st_map(enum_map! { _ => vec![] }, Some(fam::upd(false, 12.0, None)), (None, None));
    let s3 = st_map(enum_map! { _ => vec![] }, Some(fam::blk(true, true, 13.0, 13.0, None)), (None, None));
    let m = mk(budget, vec![s0, s1, s2, s3]);
    let mut l0: EnumMap<Event, Vec<Trans>> = enum_map! { _ => vec![] };
    l0[Signal] = vec![Trans(0, 1.0)];
    let listener = mk(budget, vec![st_map(l0, Some(Action::Cancel { timer: maybenot::action::Timer::All }), (None, None))]);
    let ms = Ms(Arc::new(vec![m.clone(), listener]));
    let state0 = m.states[0].clone();
    let base: Framework<Ms, OneWord, VT> = Framework::new(ms, 0.0, 0.0, VT(0), OneWord(0, 0)).map_err(|e| format!("{:?}", e))?;
    let mut n = 0u64;
    let mut rng = OneWord(0, 0);
    for k in lo..hi {
        let w = (k as u32) << 9;
        rng.0 = w;
        rng.1 = 0;
        let target = state0.sample_state(NormalRecv, &mut rng);
        // a framework whose RNG returns this word for every draw (constant distributions draw nothing else that matters)
        let mut f: Framework<Ms, OneWord, VT> = unsafe_set_rng(&base, w);
        let acts: Vec<Act> = f.trigger_events(&[TriggerEvent::NormalRecv], VT(0)).map(conv).collect();
        let snap = f.verif_snapshot();
        let a0 = acts.iter().find(|a| a.machine() == 0);
        let sig = acts.iter().any(|a| a.machine() == 1);
        let ok = match target {
            None => a0.is_none() && !sig && snap.machines[0].0 == 0,
            Some(t) if t == STATE_END => a0.is_none() && !sig && snap.machines[0].0 == STATE_END,
            Some(t) if t == STATE_SIGNAL => a0.is_none() && sig && snap.machines[0].0 == 0,
            Some(0) => matches!(a0, Some(Act::Pad { timeout: 10, .. })) && !sig,
            Some(1) => matches!(a0, Some(Act::Pad { timeout: 11, .. })) && !sig && snap.machines[0].0 == 1,
            Some(2) => matches!(a0, Some(Act::Timer { duration: 12, .. })) && !sig && snap.machines[0].0 == 2,
            Some(3) => matches!(a0, Some(Act::Block { timeout: 13, .. })) && !sig && snap.machines[0].0 == 3,
            Some(_) => false,
        };
        if !ok {
            return Err(format!("draw word {w:#010x}: sample_state chose {:?} but the framework's observable effect was actions {:?}, signal delivered {}, machine state {}", target, acts, sig, snap.machines[0].0));
        }
        n += 1;
    }
    Ok(n)
}
/// clone a framework and give the clone an RNG fixed to `w` (rebuilds it: the rng field is private)
fn unsafe_set_rng(base: &Framework<Ms, OneWord, VT>, w: u32) -> Framework<Ms, OneWord, VT> {
    // Framework::new draws only for limits (none here), so rebuilding with the word is equivalent to a clone with that RNG
    let _ = base;
    PROBE_MS.with(|m| Framework::new(m.borrow().clone().expect("probe machines"), 0.0, 0.0, VT(0), OneWord(w, 0)).expect("probe framework"))
}
thread_local! {
    static PROBE_MS: std::cell::RefCell<Option<Ms>> = std::cell::RefCell::new(None);
}

pub fn worker(ctx: &WorkerCtx) -> WorkerOut {
    let q = ctx.quick();
    let vectors = corpus(if q { 2 } else { 1 });
    let groups: Vec<Vec<Vec<Trans>>> = vectors.chunks(13).map(|c| c.to_vec()).collect();
    let next = AtomicUsize::new(0);
    let crumbs = crate::supervise::global_crumbs();
    let t0 = std::time::Instant::now();
    type Fail = (usize, usize, String);
    let parts: Vec<(u64, u64, Vec<Fail>, Vec<Value>, u64)> = std::thread::scope(|sc| {
        let hs: Vec<_> = (0..ctx.threads())
            .map(|ti| {
                let (next, groups) = (&next, &groups);
                sc.spawn(move || {
                    let (mut calls, mut vecs, mut fails, mut samples, mut nontriv) = (0u64, 0u64, vec![], vec![], 0u64);
                    loop {
                        let gi = next.fetch_add(1, Ordering::Relaxed);
                        if gi >= groups.len() {
                            break;
                        }
                        if let Some(u) = ctx.only_unit {
                            if u != gi as u64 {
                                continue;
                            }
                        }
                        if let Some(c) = crumbs {
                            c.set(ti, gi as u64);
                        }
                        let st = state_of(&groups[gi]);
                        // the same state obtained by parsing a machine string (every other group: it doubles the work)
                        let parsed = if gi % 2 == 0 { Some(parsed_state_of(&groups[gi])) } else { None };
                        for (ei, e) in Event::iter().enumerate() {
                            let targets: Vec<usize> = groups[gi].get(ei).map(|v| v.iter().map(|t| t.0).collect()).unwrap_or_default();
                            let r = enumerate(&st, *e, &targets, 0, OUTCOMES);
                            calls += OUTCOMES;
                            match &parsed {
                                Some(Ok(ps)) => {
                                    if let Some(v) = groups[gi].get(ei) {
                                        let rp = enumerate(ps, *e, &targets, 0, OUTCOMES);
                                        calls += OUTCOMES;
                                        if let Err(m) = judge(v, &rp, OUTCOMES) {
                                            fails.push((gi, ei, format!("state obtained through Machine::from_str: {m}")));
                                        }
                                    }
                                }
                                Some(Err(m)) => {
                                    if ei == 0 {
                                        fails.push((gi, ei, m.clone()));
                                    }
                                }
                                None => {}
                            }
                            crate::supervise::beat();
                            match groups[gi].get(ei) {
                                Some(v) => {
                                    vecs += 1;
                                    if v.len() > 1 || v[0].1 < 1.0 {
                                        nontriv += 1;
                                    }
                                    if let Err(m) = judge(v, &r, OUTCOMES) {
                                        fails.push((gi, ei, m));
                                    } else if samples.len() < 2 && v.len() >= 3 {
                                        samples.push(json!({"vector": v.iter().map(|t| json!([t.0, t.1])).collect::<Vec<_>>(), "event": format!("{:?}", e), "counts_over_2^23_draws": r.counts, "no_transition": r.none}));
                                    }
                                }
                                None => {
                                    // an event for which the state declares no transitions never moves the machine
                                    if r.none != OUTCOMES {
                                        fails.push((gi, ei, format!("event {:?} has no transitions declared, yet {} of {} draws chose a target", e, OUTCOMES - r.none, OUTCOMES)));
                                    }
                                }
                            }
                        }
                    }
                    if let Some(c) = crumbs {
                        c.set(ti, u64::MAX);
                    }
                    (calls, vecs, fails, samples, nontriv)
                })
            })
            .collect();
        hs.into_iter().map(|h| h.join().unwrap()).collect()
    });
    let mut calls = 0u64;
    let mut nvec = 0u64;
    let mut nontriv = 0u64;
    let mut samples = vec![];
    let mut reported = vec![];
    for (c, v, fails, s, nt) in parts {
        calls += c;
        nvec += v;
        nontriv += nt;
        samples.extend(s);
        for (gi, ei, m) in fails {
            if reported.len() < 10 {
                let v = groups[gi].get(ei).cloned().unwrap_or_default();
                reported.push(Rep { signature: format!("C06:vector:{:?}", v), summary: format!("vector {:?} on event #{ei}: {m}", v), replay: json!({"property": "C06", "engine": "E2", "vector": v.iter().map(|t| json!([t.0, t.1])).collect::<Vec<_>>(), "event_index": ei, "group": groups[gi].iter().map(|v| v.iter().map(|t| json!([t.0, t.1])).collect::<Vec<_>>()).collect::<Vec<_>>(), "message": m}) });
            }
        }
    }
    // framework probes: split the word range across threads
    let probes: Vec<Vec<Trans>> = {
        let mut p = vec![
            vec![Trans(1, 0.25), Trans(STATE_END, 0.25), Trans(STATE_SIGNAL, 0.25), Trans(2, 0.125)],
            vec![Trans(STATE_SIGNAL, 1.0 / 3.0), Trans(0, 1.0 / 3.0), Trans(3, 0.3)],
            vec![Trans(3, 1.0)],
            vec![Trans(STATE_END, f32::EPSILON), Trans(1, 0.5)],
        ];
        if !q {
            p.push(vec![Trans(0, 0.1), Trans(1, 0.2), Trans(2, 0.3), Trans(3, 0.2), Trans(STATE_SIGNAL, 0.1)]);
            p.push(vec![Trans(2, 1e-9), Trans(STATE_SIGNAL, 0.7)]);
        }
        p
    };
    let mut probe_calls = 0u64;
    if ctx.only_unit.is_none() && reported.is_empty() {
        for pv in &probes {
            let nt = ctx.threads() as u64;
            let rs: Vec<Result<u64, String>> = std::thread::scope(|sc| {
                let hs: Vec<_> = (0..nt)
                    .map(|ti| {
                        sc.spawn(move || {
                            // machines for this thread's probe frameworks
                            use Event::*;
                            let mut t0: EnumMap<Event, Vec<Trans>> = enum_map! { _ => vec![] };
                            t0[NormalRecv] = pv.to_vec();
                            let budget = (1_000_000, 1.0, 1_000_000_000, 1.0);
                            let m = mk(budget, vec![
                                st_map(t0, Some(fam::pad(false, false, 10.0, None)), (None, None)),
                                st_map(enum_map! { _ => vec![] }, Some(fam::pad(true, false, 11.0, None)), (None, None)),
                                st_map(enum_map! { _ => vec![] }, Some(fam::upd(false, 12.0, None)), (None, None)),
                                st_map(enum_map! { _ => vec![] }, Some(fam::blk(true, true, 13.0, 13.0, None)), (None, None)),
                            ]);
                            let mut l0: EnumMap<Event, Vec<Trans>> = enum_map! { _ => vec![] };
                            l0[Signal] = vec![Trans(0, 1.0)];
                            let listener = mk(budget, vec![st_map(l0, Some(Action::Cancel { timer: maybenot::action::Timer::All }), (None, None))]);
                            PROBE_MS.with(|x| *x.borrow_mut() = Some(Ms(Arc::new(vec![m, listener]))));
                            let lo = OUTCOMES * ti / nt;
                            let hi = OUTCOMES * (ti + 1) / nt;
                            probe(pv, lo, hi)
                        })
                    })
                    .collect();
                hs.into_iter().map(|h| h.join().unwrap()).collect()
            });
            crate::supervise::beat();
            for r in rs {
                match r {
                    Ok(n) => probe_calls += n,
                    Err(m) => {
                        if reported.len() < 10 {
                            reported.push(Rep { signature: format!("C06:probe:{:?}", pv), summary: format!("framework probe {:?}: {m}", pv), replay: json!({"property": "C06", "engine": "E2", "probe_vector": pv.iter().map(|t| json!([t.0, t.1])).collect::<Vec<_>>(), "message": m}) });
                        }
                    }
                }
            }
        }
    }
    // "a transition declared with probability 1 is always taken", through the framework, for every event kind
    // in every context of up to two preceding events (repeated BlockingBegin, unpaired BlockingEnd, foreign ids ...)
    let mut p1_calls = 0u64;
    if ctx.only_unit.is_none() && reported.is_empty() {
        use maybenot::event::TriggerEvent as T;
        let own = mid(0);
        let probes_ev: Vec<(Event, T)> = vec![
            (Event::NormalRecv, T::NormalRecv), (Event::PaddingRecv, T::PaddingRecv), (Event::TunnelRecv, T::TunnelRecv), (Event::NormalSent, T::NormalSent), (Event::TunnelSent, T::TunnelSent),
            (Event::BlockingEnd, T::BlockingEnd), (Event::BlockingBegin, T::BlockingBegin { machine: own }), (Event::BlockingBegin, T::BlockingBegin { machine: mid(1) }), (Event::BlockingBegin, T::BlockingBegin { machine: mid(7) }),
            (Event::PaddingSent, T::PaddingSent { machine: own }), (Event::TimerBegin, T::TimerBegin { machine: own }), (Event::TimerEnd, T::TimerEnd { machine: own }),
        ];
        let ctx_events = all_single_events(2, true);
        'outer: for (ev, trig) in &probes_ev {
            // a chain 0 -> 1 -> 2 -> 3 on the probed event: reported three times, with any other events in between,
            // the machine must arrive in state 3 (also when the same event is repeated back to back)
            let step = |to: usize| -> EnumMap<Event, Vec<Trans>> {
                let mut t: EnumMap<Event, Vec<Trans>> = enum_map! { _ => vec![] };
                t[*ev] = vec![Trans(to, 1.0)];
                t
            };
            let m = mk((1_000_000, 1.0, 1_000_000_000, 1.0), vec![st_map(step(1), None, (None, None)), st_map(step(2), None, (None, None)), st_map(step(3), None, (None, None)), st_map(enum_map! { _ => vec![] }, Some(fam::pad(false, false, 21.0, None)), (None, None))]);
            let ms = Ms(Arc::new(vec![m, fam::noop()]));
            // in-between events: everything that is not itself a delivery of the probed kind to machine 0
            let delivers = |e: &T| -> bool {
                match (e, ev) {
                    (T::BlockingBegin { .. }, Event::BlockingBegin) => true,
                    (T::PaddingSent { machine }, Event::PaddingSent) | (T::TimerBegin { machine }, Event::TimerBegin) | (T::TimerEnd { machine }, Event::TimerEnd) => machine.into_raw() == 0,
                    (T::NormalRecv, Event::NormalRecv) | (T::PaddingRecv, Event::PaddingRecv) | (T::TunnelRecv, Event::TunnelRecv) | (T::NormalSent, Event::NormalSent) | (T::TunnelSent, Event::TunnelSent) | (T::BlockingEnd, Event::BlockingEnd) => true,
                    _ => false,
                }
            };
            let mut between: Vec<Option<T>> = vec![None];
            between.extend(ctx_events.iter().filter(|e| !delivers(e)).cloned().map(Some));
            for x in &between {
                for y in &between {
                    let mut seq: Vec<T> = vec![trig.clone()];
                    seq.extend(x.clone());
                    seq.push(trig.clone());
                    seq.extend(y.clone());
                    seq.push(trig.clone());
                    let mut f: Framework<Ms, OneWord, VT> = Framework::new(ms.clone(), 0.0, 0.0, VT(0), OneWord(0x7FFF_FFFF, u32::MAX)).expect("probe");
                    let mut last: Vec<Act> = vec![];
                    for e in &seq {
                        last = f.trigger_events(std::slice::from_ref(e), VT(0)).map(conv).collect();
                        p1_calls += 1;
                    }
                    if f.verif_snapshot().machines[0].0 != 3 || !last.iter().any(|a| matches!(a, Act::Pad { m: 0, timeout: 21, .. })) {
                        reported.push(Rep { signature: format!("C06:p1-through-framework:{:?}", ev), summary: format!("transitions declared with probability 1 on {:?} were not all taken for the reports {:?} (machine in state {} instead of 3)", ev, batch_to_strings(&seq), f.verif_snapshot().machines[0].0), replay: json!({"property": "C06", "engine": "E2", "message": "p=1 transition not taken through the framework", "sequence": batch_to_strings(&seq)}) });
                        break 'outer;
                    }
                }
            }
        }
    }
    // thorough: the full 2^32 word space for two vectors confirms the 512-to-1 word -> value map
    let mut full_words = 0u64;
    if !q && ctx.only_unit.is_none() && reported.is_empty() {
        for pv in probes.iter().take(2) {
            let mut t: EnumMap<Event, Vec<Trans>> = enum_map! { _ => vec![] };
            t[Event::TunnelSent] = pv.clone();
            let st = State::new(t);
            let targets: Vec<usize> = pv.iter().map(|t| t.0).collect();
            let base = enumerate(&st, Event::TunnelSent, &targets, 0, OUTCOMES);
            let nt = ctx.threads() as u64;
            let parts: Vec<(Vec<u64>, u64)> = std::thread::scope(|sc| {
                let hs: Vec<_> = (0..nt)
                    .map(|ti| {
                        let (st, targets) = (&st, &targets);
                        sc.spawn(move || {
                            let lo = (1u64 << 32) * ti / nt;
                            let hi = (1u64 << 32) * (ti + 1) / nt;
                            let mut counts = vec![0u64; targets.len()];
                            let mut none = 0u64;
                            let mut rng = OneWord(0, 0);
                            for w in lo..hi {
                                rng.0 = w as u32;
                                rng.1 = 0;
                                match st.sample_state(Event::TunnelSent, &mut rng) {
                                    None => none += 1,
                                    Some(t) => {
                                        if let Some(i) = targets.iter().position(|x| *x == t) {
                                            counts[i] += 1
                                        }
                                    }
                                }
                                if w & 0xFFFFFF == 0 {
                                    crate::supervise::beat();
                                }
                            }
                            (counts, none)
                        })
                    })
                    .collect();
                hs.into_iter().map(|h| h.join().unwrap()).collect()
            });
            let mut counts = vec![0u64; targets.len()];
            let mut none = 0u64;
            for (c2, n2) in parts {
                for (a, b) in counts.iter_mut().zip(c2) {
                    *a += b;
                }
                none += n2;
            }
            full_words += 1u64 << 32;
            let ok = counts.iter().zip(base.counts.iter()).all(|(a, b)| *a == *b * 512) && none == base.none * 512;
            if !ok {
                reported.push(Rep { signature: format!("C06:wordmap:{:?}", pv), summary: format!("over all 2^32 words the outcome counts {:?}/{} are not 512 times the counts over the 2^23 distinct draw values {:?}/{}", counts, none, base.counts, base.none), replay: json!({"property": "C06", "engine": "E2", "probe_vector": pv.iter().map(|t| json!([t.0, t.1])).collect::<Vec<_>>(), "message": "word map"}) });
            }
        }
    }
    let _ = c(0.0);
    if samples.is_empty() {
        samples.push(json!("none"));
    }
    samples.truncate(4);
    let coverage = json!({
        "states": OUTCOMES, "transitions": calls, "traces_validated_against_impl": probe_calls, "samples": samples,
        "evaluations": calls + probe_calls, "distinct_nontrivial": nontriv,
        "rule": "for every validated probability vector of the corpus (placed on one of the 13 events of a state whose other events carry other vectors) every one of the 2^23 distinct values of the uniform draw (words k<<9) goes through the real State::sample_state; exact outcome counts compared with p_i*2^23 (tolerance 2 + i/2 outcomes for the i-th target, 1 + len/4 for 'no transition': f32 accumulation plus the boundary convention). distinct_nontrivial = vectors with more than one target or a probability below 1. Framework probes: every word through trigger_events, observable effect vs sampled target",
        "exhaustive": ctx.only_unit.is_none(),
        "probability_vectors": nvec, "draw_outcomes_per_vector": OUTCOMES, "states_with_13_different_vectors": groups.len(), "framework_probe_vectors": probes.len(), "framework_probe_calls": probe_calls, "probability_one_through_framework_calls_in_contexts": p1_calls, "words_enumerated_over_the_full_2^32_space": full_words,
        "wall_s": t0.elapsed().as_secs_f64(),
    });
    let vacuous = if nvec < 50 && ctx.only_unit.is_none() && reported.is_empty() { Some(format!("only {nvec} vectors")) } else { None };
    WorkerOut { level: "model_checking", coverage, assumptions: vec!["the draw is rand's gen_range(0f32..1f32): value = (word >> 9) / 2^23, so the words k<<9 cover every distinct value once; the 512-to-1 word-to-value map is rand's and is confirmed on two vectors over the full 2^32 word space in the thorough tier".into()], reported, vacuous }
}

pub fn replay(v: &Value) -> Result<Option<String>, String> {
    let parse = |x: &Value| -> Vec<Trans> { x.as_array().map(|a| a.iter().map(|t| Trans(t[0].as_u64().unwrap_or(0) as usize, t[1].as_f64().unwrap_or(0.0) as f32)).collect()).unwrap_or_default() };
    if v.get("group").is_some() {
        let group: Vec<Vec<Trans>> = v["group"].as_array().map(|a| a.iter().map(parse).collect()).unwrap_or_default();
        let ei = v["event_index"].as_u64().unwrap_or(0) as usize;
        let st = state_of(&group);
        let e = *Event::iter().nth(ei).ok_or("event")?;
        let vec = group.get(ei).cloned().unwrap_or_default();
        let targets: Vec<usize> = vec.iter().map(|t| t.0).collect();
        let r = enumerate(&st, e, &targets, 0, OUTCOMES);
        if vec.is_empty() {
            return Ok(if r.none != OUTCOMES { Some("event without transitions moved the machine".into()) } else { None });
        }
        return Ok(judge(&vec, &r, OUTCOMES).err());
    }
    Err("probe replays are re-run by the check itself".into())
}
