//! C09 — signals. From the step log of every call: S = distinct machines that
//! moved to the signal pseudo-state anywhere in the call, D(m) = Signal events
//! delivered to m while live. |S| = 0: none; |S| = 1: every other live machine
//! exactly one, the signaller none; |S| >= 2: every live machine exactly one;
//! never more than one; nothing pending when the call returns.
use super::logparse::parse;
use super::*;
use crate::fam;
use crate::types::*;
use maybenot::constants::{STATE_END, STATE_SIGNAL};
use maybenot::event::Event;

#[derive(Clone)]
pub struct Obs;

impl Observer for Obs {
    fn init(_cfg: &Cfg, _s: &[u8], _fw: &Fw) -> Result<Self, String> {
        Ok(Obs)
    }
    fn on_call(&mut self, c: &CallCtx<'_>, stats: &mut Stats) -> Result<bool, String> {
        let n = c.cfg.machines.len();
        if parse(c.batch, n, c.steps).is_err() {
            // a Signal step in the middle of the events does not parse: that *is* a signal outside the round
            if c.steps.iter().any(|s| s.event == Event::Signal) {
                let pos = c.steps.iter().position(|s| s.event == Event::Signal).unwrap();
                if c.steps[pos..].iter().any(|s| !matches!(s.event, Event::Signal | Event::CounterZero | Event::LimitReached)) {
                    return Err(format!("a Signal was delivered before the end of the call (step {pos}), not in one round after all events: {:?}", c.steps.iter().map(|s| (s.machine, s.event)).collect::<Vec<_>>()));
                }
            }
            stats.bump("calls_with_unparsed_log_skipped");
            return Ok(false);
        }
        let mut signallers: Vec<usize> = vec![];
        let mut delivered = vec![0u32; n];
        let mut ended: Vec<bool> = c.before.machines.iter().map(|m| m.0 == STATE_END).collect();
        let mut live_at_round: Option<Vec<bool>> = None;
        for s in c.steps {
            if s.event == Event::Signal && live_at_round.is_none() {
                live_at_round = Some(ended.iter().map(|e| !e).collect());
            }
            if !s.live {
                continue;
            }
            if s.event == Event::Signal {
                delivered[s.machine] += 1;
            }
            match s.target {
                Some(t) if t == STATE_SIGNAL => {
                    if !signallers.contains(&s.machine) {
                        signallers.push(s.machine);
                    }
                }
                Some(t) if t == STATE_END => ended[s.machine] = true,
                _ => {}
            }
        }
        let live: Vec<bool> = live_at_round.unwrap_or_else(|| ended.iter().map(|e| !e).collect());
        for m in 0..n {
            if delivered[m] > 1 {
                return Err(format!("machine {m} received {} Signal events in one call (signallers {:?})", delivered[m], signallers));
            }
        }
        match signallers.len() {
            0 => {
                if let Some(m) = (0..n).find(|m| delivered[*m] > 0) {
                    return Err(format!("machine {m} received a Signal although no machine signalled in this call"));
                }
            }
            1 => {
                let s0 = signallers[0];
                for m in 0..n {
                    if m == s0 {
                        if delivered[m] != 0 {
                            return Err(format!("machine {m} is the only machine that signalled in this call, yet it received a Signal itself"));
                        }
                    } else if live[m] && delivered[m] != 1 {
                        return Err(format!("machine {s0} signalled, live machine {m} received {} Signal events instead of exactly one", delivered[m]));
                    }
                }
                stats.bump("calls_with_a_lone_signaller");
            }
            _ => {
                for m in 0..n {
                    if live[m] && delivered[m] != 1 {
                        return Err(format!("machines {:?} signalled, live machine {m} received {} Signal events instead of exactly one", signallers, delivered[m]));
                    }
                }
                stats.bump("calls_with_several_signallers");
            }
        }
        if c.after.signal_pending.is_some() {
            return Err(format!("a signal is still pending when the call returns ({:?}): it would be delivered by a later call", c.after.signal_pending));
        }
        if live.iter().any(|l| !l) && !signallers.is_empty() {
            stats.bump("signal_rounds_with_an_ended_machine");
        }
        Ok(!signallers.is_empty())
    }
    fn key(&self, _out: &mut String) {}
}

pub fn plans(ctx: &WorkerCtx) -> Vec<Plan> {
    let q = ctx.quick();
    let sig = fam::p_sig();
    let fr = [(0.0, 0.0)];
    let base = Opts { n32: 2, n64: 2, ..Default::default() };
    let mut v = vec![];
    let af = |pairs: bool| -> Box<dyn Fn(&Cfg) -> Alphabet + Sync> { Box::new(move |c: &Cfg| super::c05::alphabet(c.machines.len(), vec![0], pairs)) };
    v.push(Plan { name: "one signaller".into(), cfgs: fam::singles(&sig, &fr), alpha_for: af(true), opts: Opts { depth: if q { 3 } else { 4 }, ..base.clone() }, walk: None });
    v.push(Plan { name: "all ordered pairs of signal probes, singles + pairs + long batches".into(), cfgs: fam::all_pairs(&sig, &sig, &fr), alpha_for: af(true), opts: Opts { depth: if q { 2 } else { 3 }, ..base.clone() }, walk: None });
    v.push(Plan { name: "all ordered pairs of signal probes, singles, deeper".into(), cfgs: fam::all_pairs(&sig, &sig, &fr), alpha_for: af(false), opts: Opts { depth: if q { 4 } else { 6 }, ..base.clone() }, walk: None });
    let mut three = vec![];
    for (na, a) in &sig {
        for (nb, b) in &sig {
            for (nc, cm) in &sig {
                three.push(Cfg::new(format!("[{na}, {nb}, {nc}] fw(0,0)"), vec![a.clone(), b.clone(), cm.clone()], 0.0, 0.0));
            }
        }
    }
    v.push(Plan { name: "all ordered triples of signal probes".into(), cfgs: three, alpha_for: af(false), opts: Opts { depth: if q { 3 } else { 5 }, full_positions: 6, ..base.clone() }, walk: None });
    // machine ids beyond one byte (and, thorough, beyond two bytes): signal probes at a low and a high index among listeners;
    // all transitions involved have probability 1, so a one-word RNG menu loses nothing
    {
        let sizes: Vec<(usize, usize, usize)> = if q { vec![(258, 1, 257), (258, 0, 256)] } else { vec![(258, 1, 257), (258, 0, 256), (258, 2, 3), (515, 3, 259), (65538, 1, 65537)] };
        let mut many = vec![];
        for (n, lo, hi) in sizes {
            for ka in 0..6 {
                for kb in 0..6 {
                    if n > 1000 && (ka + kb) % 3 != 0 {
                        continue;
                    }
                    let mut ms = vec![fam::signaller(4); n];
                    ms[lo] = fam::signaller(ka);
                    ms[hi] = fam::signaller(kb);
                    many.push((Cfg::new(format!("{n} machines: sig[k{ka}] at {lo}, sig[k{kb}] at {hi}, listeners elsewhere, fw(0,0)"), ms, 0.0, 0.0), lo, hi));
                }
            }
        }
        let idx: std::collections::HashMap<String, (usize, usize)> = many.iter().map(|(c, lo, hi)| (c.label.clone(), (*lo, *hi))).collect();
        let alpha = move |c: &Cfg| -> Alphabet {
            use maybenot::event::TriggerEvent as T;
            let (lo, hi) = idx[&c.label];
            let mut singles = vec![T::NormalRecv, T::TunnelRecv, T::NormalSent];
            let mut ids = vec![lo, hi, hi % 256, hi % 65536];
            ids.sort();
            ids.dedup();
            for id in ids {
                singles.push(T::PaddingSent { machine: mid(id) });
                singles.push(T::TimerEnd { machine: mid(id) });
            }
            let mut batches: Vec<Vec<T>> = vec![vec![]];
            batches.extend(singles.iter().map(|e| vec![e.clone()]));
            batches.push(vec![T::PaddingSent { machine: mid(hi) }, T::NormalRecv]);
            batches.push(vec![T::NormalRecv, T::PaddingSent { machine: mid(lo) }, T::PaddingSent { machine: mid(hi) }]);
            Alphabet { batches, deltas: vec![0] }
        };
        v.push(Plan { name: "signal probes at machine indices on both sides of 256 (thorough: 65536) among listeners".into(), cfgs: many.into_iter().map(|(c, _, _)| c).collect(), alpha_for: Box::new(alpha), opts: Opts { depth: if q { 3 } else { 4 }, n32: 1, n64: 1, full_positions: 0, max_deviations: 0, ..base.clone() }, walk: None });
    }
    let g2: Vec<_> = fam::g2(if q { 1499 } else { 149 }, 4).into_iter().filter(|(_, m)| format!("{:?}", m).contains("4294967294")).collect();
    let mut lib = g2.clone();
    lib.extend(sig.iter().cloned());
    v.push(Plan { name: "G2 machines with signal transitions (on LimitReached, CounterZero, Signal), pairs".into(), cfgs: fam::pairs_strided(&lib, 31, 7, &[(0.0, 0.0), (0.5, 0.5)]), alpha_for: af(false), opts: Opts { depth: if q { 3 } else { 4 }, ..base.clone() }, walk: None });
    v.push(Plan { name: "G2 machines with signal transitions, triples".into(), cfgs: fam::triples_strided(&lib, &[(0.0, 0.0)]), alpha_for: af(false), opts: Opts { depth: if q { 2 } else { 3 }, full_positions: 4, ..base.clone() }, walk: None });
    let corp = fam::corpus(ctx.seed.wrapping_add(51), if q { 150 } else { 1500 });
    v.push(Plan { name: "corpus of generated 3-6 state machines (sampled), singles and pairs: BFS plus long random walks".into(), cfgs: { let mut c = fam::singles(&corp, &[(0.5, 0.5)]); c.extend(fam::pairs_strided(&corp, 31, 7, &[(0.0, 0.0), (0.5, 0.5)])); c }, alpha_for: Box::new(|c: &Cfg| super::c05::alphabet(c.machines.len(), vec![0], false)), opts: Opts { depth: if q { 1 } else { 2 }, ..base.clone() }, walk: Some((if q { 3 } else { 6 }, 300)) });
    v
}

pub const RULE: &str = "every call (empty, single, all ordered pairs, long batches) on the real Framework from every explored state of 1-3 machine sets, every draw outcome; the observer counts signallers and delivered Signal events from the step log. distinct_nontrivial = distinct states first reached by a call in which at least one machine signalled";

pub fn worker(ctx: &WorkerCtx) -> WorkerOut {
    let s = run_e1::<Obs>("C09", plans(ctx), ctx, RULE);
    let lone = s.stats.0.get("calls_with_a_lone_signaller").copied().unwrap_or(0);
    let several = s.stats.0.get("calls_with_several_signallers").copied().unwrap_or(0);
    let vacuous = if (lone < 100 || several < 100) && ctx.only_unit.is_none() && s.reported.is_empty() { Some(format!("lone-signaller calls {lone}, several-signaller calls {several}")) } else { None };
    WorkerOut { level: "model_checking", coverage: s.coverage, assumptions: vec!["the hook step log is trusted to report every internal machine step".into()], reported: s.reported, vacuous }
}
pub fn replay(v: &Value) -> Result<Option<String>, String> {
    replay_e1::<Obs>(v, false)
}
