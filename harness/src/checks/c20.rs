//! C20 — the C API returns exactly the framework's actions and never writes
//! past num_machines. E1 as a product with a live C-API instance: a BFS over
//! the states of a Rust twin framework; for every explored edge the opaque C
//! instance is rebuilt with `maybenot_start` and the history replayed, then the
//! actions written for the last batch are compared field by field with the
//! twin's, in a buffer surrounded by canary slots. Plus the exhaustive
//! start-argument menu, null-pointer cases and a leak check with a counting allocator.
use super::*;
use crate::alloc;
use crate::fam;
use crate::rng::WordRng;
use crate::types::*;
use maybenot::dist::{Dist, DistType};
use maybenot::event::TriggerEvent;
use maybenot::{Framework, Machine};
use maybenot_ffi::*;
use std::collections::HashSet;
use std::ffi::CString;
use std::mem::MaybeUninit;
use std::str::FromStr;
use std::sync::atomic::{AtomicUsize, Ordering};
use std::sync::Arc;

const CANARY: u8 = 0xA5;
const GUARD: usize = 3;

fn const_dist(d: &Dist) -> bool {
    matches!(d.dist, DistType::Uniform { low, high } if low == high)
}
/// deterministic sampling: probability-1 single-target transitions, constant distributions
pub fn det_sampling(m: &Machine) -> bool {
    use maybenot::action::Action::*;
    for s in &m.states {
        for (_, v) in s.get_transitions() {
            if v.len() > 1 || v.iter().any(|t| t.1 != 1.0) {
                return false;
            }
        }
        let ok = match &s.action {
            None | Some(Cancel { .. }) => true,
            Some(SendPadding { timeout, limit, .. }) => const_dist(timeout) && limit.map(|l| const_dist(&l)).unwrap_or(true),
            Some(BlockOutgoing { timeout, duration, limit, .. }) => const_dist(timeout) && const_dist(duration) && limit.map(|l| const_dist(&l)).unwrap_or(true),
            Some(UpdateTimer { duration, limit, .. }) => const_dist(duration) && limit.map(|l| const_dist(&l)).unwrap_or(true),
        };
        if !ok {
            return false;
        }
        for c in [&s.counter.0, &s.counter.1].into_iter().flatten() {
            if !c.copy && !c.dist.map(|d| const_dist(&d)).unwrap_or(true) {
                return false;
            }
        }
    }
    true
}
/// make blocking budgets independent of wall-clock time (the API reads `Instant::now()` itself)
fn time_independent(m: &Machine) -> Machine {
    let mut m = m.clone();
    m.allowed_blocked_microsec = u64::MAX;
    m.max_blocking_frac = 0.0;
    m
}

fn to_c_event(e: &TriggerEvent) -> MaybenotEvent {
    let (t, m) = match e {
        TriggerEvent::NormalRecv => (MaybenotEventType::NormalRecv, 0),
        TriggerEvent::PaddingRecv => (MaybenotEventType::PaddingRecv, 0),
        TriggerEvent::TunnelRecv => (MaybenotEventType::TunnelRecv, 0),
        TriggerEvent::NormalSent => (MaybenotEventType::NormalSent, 0),
        TriggerEvent::TunnelSent => (MaybenotEventType::TunnelSent, 0),
        TriggerEvent::BlockingEnd => (MaybenotEventType::BlockingEnd, 0),
        TriggerEvent::PaddingSent { machine } => (MaybenotEventType::PaddingSent, machine.into_raw()),
        TriggerEvent::BlockingBegin { machine } => (MaybenotEventType::BlockingBegin, machine.into_raw()),
        TriggerEvent::TimerBegin { machine } => (MaybenotEventType::TimerBegin, machine.into_raw()),
        TriggerEvent::TimerEnd { machine } => (MaybenotEventType::TimerEnd, machine.into_raw()),
    };
    MaybenotEvent { event_type: t, machine: m }
}
fn dur_us(d: &MaybenotDuration) -> Result<u64, String> {
    if d.nanos >= 1_000_000_000 {
        return Err(format!("duration with {} nanoseconds in the sub-second part", d.nanos));
    }
    Ok(d.secs * 1_000_000 + (d.nanos / 1000) as u64)
}
/// the twin's durations are whole microseconds: the split must be exact
fn split_ok(d: &MaybenotDuration, us: u64) -> bool {
    d.secs == us / 1_000_000 && d.nanos as u64 == (us % 1_000_000) * 1000
}
fn compare_action(c: &MaybenotAction, r: &Act) -> Result<(), String> {
    let ok = match (c, r) {
        (MaybenotAction::Cancel { machine, timer }, Act::Cancel { m, timer: t }) => *machine == *m && (*timer as u32) as u8 == *t,
        (MaybenotAction::SendPadding { machine, timeout, replace, bypass }, Act::Pad { m, timeout: t, bypass: b, replace: rp }) => *machine == *m && split_ok(timeout, *t) && replace == rp && bypass == b,
        (MaybenotAction::BlockOutgoing { machine, timeout, replace, bypass, duration }, Act::Block { m, timeout: t, duration: d, bypass: b, replace: rp }) => *machine == *m && split_ok(timeout, *t) && split_ok(duration, *d) && replace == rp && bypass == b,
        (MaybenotAction::UpdateTimer { machine, duration, replace }, Act::Timer { m, duration: d, replace: rp }) => *machine == *m && split_ok(duration, *d) && replace == rp,
        _ => false,
    };
    let _ = dur_us;
    if ok {
        Ok(())
    } else {
        Err(format!("C API wrote {:?}, the Rust framework returned {:?}", c, r))
    }
}

/// A live C-API instance, stopped on drop.
struct CInst(*mut MaybenotFramework);
impl Drop for CInst {
    fn drop(&mut self) {
        unsafe { maybenot_stop(self.0) }
    }
}
fn c_start(s: &CString, pf: f64, bf: f64) -> Result<CInst, u32> {
    let mut out: MaybeUninit<*mut MaybenotFramework> = MaybeUninit::uninit();
    let r = unsafe { maybenot_start(s.as_ptr(), pf, bf, &mut out) };
    if r as u32 == 0 {
        Ok(CInst(unsafe { out.assume_init() }))
    } else {
        Err(r as u32)
    }
}

/// One call through the C API with a canary-guarded buffer; returns the written actions.
fn c_call(inst: &CInst, batch: &[TriggerEvent], n_machines: usize) -> Result<Vec<MaybenotAction>, String> {
    let evs: Vec<MaybenotEvent> = batch.iter().map(to_c_event).collect();
    let slot = std::mem::size_of::<MaybenotAction>();
    let total = n_machines + 2 * GUARD;
    let mut buf: Vec<MaybeUninit<MaybenotAction>> = Vec::with_capacity(total);
    unsafe {
        buf.set_len(total);
        std::ptr::write_bytes(buf.as_mut_ptr() as *mut u8, CANARY, total * slot);
    }
    let mut count: usize = usize::MAX;
    // an empty batch still needs a non-null events pointer
    let evp = if evs.is_empty() { std::ptr::NonNull::<MaybenotEvent>::dangling().as_ptr() as *const MaybenotEvent } else { evs.as_ptr() };
    let r = unsafe { maybenot_on_events(inst.0, evp, evs.len(), buf.as_mut_ptr().add(GUARD), &mut count) };
    if r as u32 != 0 {
        return Err(format!("maybenot_on_events returned error code {}", r as u32));
    }
    if count > n_machines {
        return Err(format!("maybenot_on_events reported {count} actions for {n_machines} machines"));
    }
    let bytes = unsafe { std::slice::from_raw_parts(buf.as_ptr() as *const u8, total * slot) };
    let intact = |from: usize, to: usize| bytes[from * slot..to * slot].iter().all(|b| *b == CANARY);
    if !intact(0, GUARD) {
        return Err("maybenot_on_events wrote before the start of the output buffer".into());
    }
    if !intact(GUARD + n_machines, total) {
        return Err(format!("maybenot_on_events wrote past the {n_machines} slots of the output buffer (num_machines)"));
    }
    if !intact(GUARD + count, GUARD + n_machines) {
        return Err(format!("maybenot_on_events touched output slots beyond the {count} actions it reported"));
    }
    Ok((0..count).map(|i| unsafe { buf[GUARD + i].assume_init() }).collect())
}

struct Twin {
    f: Framework<Ms, WordRng, std::time::Instant>,
}
impl Clone for Twin {
    fn clone(&self) -> Self {
        Twin { f: self.f.clone() }
    }
}

pub struct CRes {
    pub states: u64,
    pub edges: u64,
    pub actions_compared: u64,
    pub violation: Option<(Vec<Vec<TriggerEvent>>, String)>,
    pub sample: Option<Value>,
}

pub fn explore_c(cfg: &Cfg, depth: usize, pairs: bool) -> CRes {
    let mut res = CRes { states: 0, edges: 0, actions_compared: 0, violation: None, sample: None };
    let ms = Ms(Arc::new(cfg.machines.clone()));
    let n = cfg.machines.len();
    let t0 = std::time::Instant::now();
    let machine_str = CString::new(cfg.machines.iter().map(|m| m.serialize()).collect::<Vec<_>>().join("\n")).unwrap();
    let f0 = match Framework::new(ms.clone(), cfg.pad_frac, 0.0, t0, WordRng::new(&[], 1)) {
        Ok(f) => f,
        Err(e) => {
            res.violation = Some((vec![], format!("twin construction failed: {:?}", e)));
            return res;
        }
    };
    let singles = all_single_events(n, true);
    let mut batches: Vec<Vec<TriggerEvent>> = vec![vec![]];
    batches.extend(singles.iter().map(|e| vec![e.clone()]));
    if pairs {
        for a in &singles {
            for b in &singles {
                batches.push(vec![a.clone(), b.clone()]);
            }
        }
    }
    let mut long = vec![TriggerEvent::NormalRecv, TriggerEvent::NormalSent, TriggerEvent::TunnelRecv];
    for i in 0..n {
        long.push(TriggerEvent::PaddingSent { machine: mid(i) });
        long.push(TriggerEvent::BlockingBegin { machine: mid(i) });
        long.push(TriggerEvent::TimerBegin { machine: mid(i) });
    }
    batches.push(long.clone());
    long.reverse();
    batches.push(long);
    let key = |t: &Twin| -> u128 {
        let mut c = t.f.clone();
        let _ = c.trigger_events(&[], t0).count();
        hash128(&format!("{:?}", c))
    };
    let mut seen: HashSet<u128> = HashSet::new();
    let tw0 = Twin { f: f0 };
    seen.insert(key(&tw0));
    res.states = 1;
    let mut frontier: Vec<(Twin, Vec<u16>)> = vec![(tw0, vec![])];
    for d in 0..depth {
        let mut next = vec![];
        for (tw, hist) in &frontier {
            for (bi, b) in batches.iter().enumerate() {
                let mut t2 = tw.clone();
                let expect: Vec<Act> = t2.f.trigger_events(b, t0).map(conv_std).collect();
                res.edges += 1;
                if res.edges & 0x3FF == 0 {
                    crate::supervise::beat();
                }
                // fresh C instance, history replayed
                let fail = |msg: String, hist: &Vec<u16>| -> (Vec<Vec<TriggerEvent>>, String) {
                    let mut h: Vec<Vec<TriggerEvent>> = hist.iter().map(|i| batches[*i as usize].clone()).collect();
                    h.push(b.clone());
                    (h, msg)
                };
                let inst = match c_start(&machine_str, cfg.pad_frac, 0.0) {
                    Ok(i) => i,
                    Err(code) => {
                        res.violation = Some(fail(format!("maybenot_start failed with code {code} for machines the Rust API accepts"), hist));
                        return res;
                    }
                };
                let nm = unsafe { maybenot_num_machines(inst.0) };
                if nm != n {
                    res.violation = Some(fail(format!("maybenot_num_machines = {nm}, {n} machines were given"), hist));
                    return res;
                }
                let mut bad = None;
                for hb in hist {
                    if let Err(e) = c_call(&inst, &batches[*hb as usize], n) {
                        bad = Some(e);
                        break;
                    }
                }
                let got = match bad {
                    Some(e) => Err(e),
                    None => c_call(&inst, b, n),
                };
                drop(inst);
                let got = match got {
                    Ok(g) => g,
                    Err(e) => {
                        res.violation = Some(fail(e, hist));
                        return res;
                    }
                };
                if got.len() != expect.len() {
                    res.violation = Some(fail(format!("the C API wrote {} actions {:?}, the Rust framework returned {} {:?}", got.len(), got, expect.len(), expect), hist));
                    return res;
                }
                for (c, r) in got.iter().zip(expect.iter()) {
                    res.actions_compared += 1;
                    if let Err(e) = compare_action(c, r) {
                        res.violation = Some(fail(e, hist));
                        return res;
                    }
                }
                if seen.insert(key(&t2)) {
                    res.states += 1;
                    let mut h2 = hist.clone();
                    h2.push(bi as u16);
                    if res.sample.is_none() && !expect.is_empty() && d >= 1 {
                        res.sample = Some(json!({"config": cfg.label, "history": h2.iter().map(|i| batch_to_strings(&batches[*i as usize])).collect::<Vec<_>>(), "actions_written_by_the_c_api": format!("{:?}", got)}));
                    }
                    next.push((t2, h2));
                }
            }
        }
        frontier = next;
        if frontier.is_empty() {
            break;
        }
    }
    res
}

// ---------------------------------------------------------------------------
// start arguments, null pointers, leaks
// ---------------------------------------------------------------------------
fn expected_start(bytes: &[u8], pf: f64, bf: f64, out_null: bool) -> u32 {
    if out_null {
        return 4;
    }
    let Ok(s) = std::str::from_utf8(bytes) else { return 1 };
    let ms: Result<Vec<Machine>, _> = s.lines().map(Machine::from_str).collect();
    let Ok(ms) = ms else { return 2 };
    match Framework::new(ms, pf, bf, std::time::Instant::now(), WordRng::new(&[], 1)) {
        Ok(_) => 0,
        Err(_) => 3,
    }
}

pub fn start_argument_cases() -> (u64, Vec<String>) {
    let mut fails = vec![];
    let mut n = 0u64;
    let v1 = fam::padder(1, 2, 0.5).serialize();
    let v2 = time_independent(&fam::limiter(1, 1, Some(fam::c(2.0)))).serialize();
    let mut strings: Vec<(&str, Vec<u8>)> = vec![
        ("one valid machine", v1.clone().into_bytes()),
        ("two valid machines", format!("{v1}\n{v2}").into_bytes()),
        ("valid + trailing LF", format!("{v1}\n").into_bytes()),
        ("empty string", vec![]),
        ("invalid base64", b"02!!!!".to_vec()),
        ("wrong version", format!("01{}", &v1[2..]).into_bytes()),
        ("blank middle line", format!("{v1}\n\n{v2}").into_bytes()),
        ("CRLF separated", format!("{v1}\r\n{v2}").into_bytes()),
        ("leading LF", format!("\n{v1}").into_bytes()),
        ("space after machine", format!("{v1} ").into_bytes()),
    ];
    let mut bad_utf8 = v1.clone().into_bytes();
    bad_utf8.push(0xFF);
    strings.push(("invalid UTF-8 byte", bad_utf8));
    strings.push(("lone continuation byte", vec![0x80]));
    let fracs = [0.0, 1.0, 0.5, -0.0, -1e-9, 1.0 + f64::EPSILON, f64::NAN, f64::INFINITY, f64::NEG_INFINITY];
    // warm-up (allocator caches, lazy statics)
    for _ in 0..2 {
        if let Ok(i) = c_start(&CString::new(v1.clone()).unwrap(), 0.0, 0.0) {
            drop(i);
        }
    }
    for (name, bytes) in &strings {
        let cs = CString::new(bytes.clone()).expect("no interior NUL in the menu");
        for pf in fracs {
            for bf in fracs {
                for out_null in [false, true] {
                    n += 1;
                    let exp = expected_start(bytes, pf, bf, out_null);
                    let before = alloc::live();
                    let got = if out_null {
                        unsafe { maybenot_start(cs.as_ptr(), pf, bf, std::ptr::null_mut()) as u32 }
                    } else {
                        match c_start(&cs, pf, bf) {
                            Ok(inst) => {
                                let nm = unsafe { maybenot_num_machines(inst.0) };
                                let want = std::str::from_utf8(bytes).map(|s| s.lines().count()).unwrap_or(0);
                                if nm != want {
                                    fails.push(format!("start({name}, {pf}, {bf}): maybenot_num_machines = {nm}, expected {want}"));
                                }
                                drop(inst);
                                0
                            }
                            Err(c) => c,
                        }
                    };
                    let after = alloc::live();
                    if got != exp {
                        fails.push(format!("maybenot_start({name}, max_padding_frac {pf}, max_blocking_frac {bf}, out {}) returned code {got}, the Rust API implies code {exp}", if out_null { "null" } else { "valid" }));
                    }
                    if after != before {
                        fails.push(format!("maybenot_start/stop({name}, {pf}, {bf}) leaked {} bytes (live heap before {before}, after {after})", after - before));
                    }
                }
            }
        }
    }
    // null pointers on the other entry points
    let inst = c_start(&CString::new(v1.clone()).unwrap(), 0.0, 0.0).expect("valid start");
    let ev = [MaybenotEvent { event_type: MaybenotEventType::NormalSent, machine: 0 }];
    let mut buf: [MaybeUninit<MaybenotAction>; 4] = unsafe { MaybeUninit::uninit().assume_init() };
    let mut count = 77usize;
    let cases: [(&str, u32); 8] = [
        ("this = null, no events", unsafe { maybenot_on_events(std::ptr::null_mut(), ev.as_ptr(), 0, buf.as_mut_ptr(), &mut count) as u32 }),
        ("events = null, num_events = 0", unsafe { maybenot_on_events(inst.0, std::ptr::null(), 0, buf.as_mut_ptr(), &mut count) as u32 }),
        ("actions_out = null, no events", unsafe { maybenot_on_events(inst.0, ev.as_ptr(), 0, std::ptr::null_mut(), &mut count) as u32 }),
        ("num_actions_out = null, no events", unsafe { maybenot_on_events(inst.0, ev.as_ptr(), 0, buf.as_mut_ptr(), std::ptr::null_mut()) as u32 }),
        ("this = null", unsafe { maybenot_on_events(std::ptr::null_mut(), ev.as_ptr(), 1, buf.as_mut_ptr(), &mut count) as u32 }),
        ("events = null", unsafe { maybenot_on_events(inst.0, std::ptr::null(), 1, buf.as_mut_ptr(), &mut count) as u32 }),
        ("actions_out = null", unsafe { maybenot_on_events(inst.0, ev.as_ptr(), 1, std::ptr::null_mut(), &mut count) as u32 }),
        ("num_actions_out = null", unsafe { maybenot_on_events(inst.0, ev.as_ptr(), 1, buf.as_mut_ptr(), std::ptr::null_mut()) as u32 }),
    ];
    for (name, code) in cases {
        n += 1;
        if code != 4 {
            fails.push(format!("maybenot_on_events with {name} returned code {code}, expected NullPointer (4)"));
        }
    }
    if count != 77 {
        fails.push("a failing maybenot_on_events call wrote the action count".into());
    }
    n += 1;
    if unsafe { maybenot_num_machines(std::ptr::null_mut()) } != 0 {
        fails.push("maybenot_num_machines(null) != 0".into());
    }
    drop(inst);
    (n, fails)
}

/// start / run a history / stop must release everything
fn leak_after_history(cfg: &Cfg) -> Result<(), String> {
    let s = CString::new(cfg.machines.iter().map(|m| m.serialize()).collect::<Vec<_>>().join("\n")).unwrap();
    let n = cfg.machines.len();
    let run = || -> Result<(), String> {
        let inst = c_start(&s, cfg.pad_frac, 0.0).map_err(|c| format!("start failed with code {c}"))?;
        for e in all_single_events(n, true) {
            c_call(&inst, &[e.clone(), e], n)?;
        }
        Ok(())
    };
    run()?; // warm-up
    let before = alloc::live();
    run()?;
    let after = alloc::live();
    if after != before {
        return Err(format!("start + {} calls + stop leaked {} bytes", all_single_events(n, true).len(), after - before));
    }
    Ok(())
}

/// Timeouts and durations from just under one second up to a day: the seconds / nanoseconds split of the C structs
/// (values below one second never touch the seconds field).
pub fn long_duration_machines() -> Vec<(String, Machine)> {
    use maybenot::event::Event::*;
    let mut v = vec![];
    for us in [999_999.0, 1_000_000.0, 1_000_001.0, 1_500_000.0, 4_294_967.0, 4_294_968.0, 5_000_000.0, 3_600_000_000.0, 86_400_000_000.0] {
        let b: fam::Budget = (1000, 0.0, u64::MAX, 0.0);
        v.push((
            format!("long[{us}us]"),
            fam::mk(b, vec![
                fam::st(&[(NormalSent, &[(1, 1.0)]), (NormalRecv, &[(2, 1.0)]), (TunnelRecv, &[(3, 1.0)])], None, (None, None)),
                fam::st(&[(NormalSent, &[(1, 1.0)]), (NormalRecv, &[(2, 1.0)]), (TunnelRecv, &[(3, 1.0)])], Some(fam::pad(false, true, us, None)), (None, None)),
                fam::st(&[(NormalSent, &[(1, 1.0)]), (NormalRecv, &[(2, 1.0)]), (TunnelRecv, &[(3, 1.0)])], Some(fam::blk(true, false, us, (us - 1.0).max(0.0), None)), (None, None)),
                fam::st(&[(NormalSent, &[(1, 1.0)]), (NormalRecv, &[(2, 1.0)]), (TunnelRecv, &[(0, 1.0)])], Some(fam::upd(true, us, None)), (None, None)),
            ]),
        ));
    }
    v
}

pub fn configs(q: bool) -> Vec<Cfg> {
    let mut lib: Vec<(String, Machine)> = vec![];
    lib.extend(fam::g1(if q { 23 } else { 7 }));
    lib.extend(fam::g2(if q { 999 } else { 199 }, 12));
    lib.extend(fam::p_sig());
    lib.extend(fam::p_lim().into_iter().step_by(if q { 2 } else { 1 }));
    lib.extend(fam::p_ctr().into_iter().step_by(if q { 9 } else { 2 }));
    lib.extend(long_duration_machines());
    let lib: Vec<(String, Machine)> = lib.into_iter().filter(|(_, m)| det_sampling(m)).map(|(n, m)| (n, time_independent(&m))).collect();
    let mut v = fam::singles(&lib, &[(0.0, 0.0)]);
    v.extend(fam::pairs_strided(&lib, 31, 7, &[(0.0, 0.0), (0.5, 0.0)]));
    if !q {
        v.extend(fam::triples_strided(&lib, &[(0.0, 0.0)]));
    }
    v.push(Cfg::new("[] fw(0,0)", vec![], 0.0, 0.0));
    v
}

pub const RULE: &str = "BFS over the states of a Rust twin framework (deterministic, time-independent machines); every explored edge = one batch (empty, every single event with own / foreign / usize::MAX ids, all ordered pairs for small sets, two long batches) executed on a freshly started C-API instance after replaying the history; compared: return code, action count <= maybenot_num_machines, every written action field by field (tag, machine, flags, timer, seconds/nanoseconds split), canary slots before and after the buffer and unreported slots untouched. distinct_nontrivial = distinct twin states reached";

pub fn worker(ctx: &WorkerCtx) -> WorkerOut {
    let q = ctx.quick();
    let t0 = std::time::Instant::now();
    let cfgs = configs(q);
    let depth = if q { 3 } else { 4 };
    let next = AtomicUsize::new(0);
    let skipped = AtomicUsize::new(0);
    let budget_s: u64 = if q { 150 } else { 1500 };
    let crumbs = crate::supervise::global_crumbs();
    let parts: Vec<Vec<(usize, CRes, Option<String>)>> = std::thread::scope(|sc| {
        let hs: Vec<_> = (0..ctx.threads())
            .map(|ti| {
                let (next, cfgs, skipped) = (&next, &cfgs, &skipped);
                sc.spawn(move || {
                    let mut out = vec![];
                    loop {
                        let i = next.fetch_add(1, Ordering::Relaxed);
                        if i >= cfgs.len() {
                            break;
                        }
                        if let Some(u) = ctx.only_unit {
                            if u != i as u64 {
                                continue;
                            }
                        }
                        if t0.elapsed().as_secs() > budget_s {
                            skipped.fetch_add(1, Ordering::Relaxed);
                            continue;
                        }
                        if let Some(c) = crumbs {
                            c.set(ti, i as u64);
                        }
                        // singles + long batches to the depth bound; all ordered pairs of events as batches to a smaller depth
                        let nm = cfgs[i].machines.len();
                        let d1 = depth;
                        let _ = nm;
                        let mut r = explore_c(&cfgs[i], d1, false);
                        if r.violation.is_none() {
                            let r2 = explore_c(&cfgs[i], if q || nm >= 2 { 1 } else { 2 }, true);
                            r.states += r2.states;
                            r.edges += r2.edges;
                            r.actions_compared += r2.actions_compared;
                            r.violation = r2.violation;
                        }
                        let leak = if r.violation.is_none() { leak_after_history(&cfgs[i]).err() } else { None };
                        out.push((i, r, leak));
                    }
                    if let Some(c) = crumbs {
                        c.set(ti, u64::MAX);
                    }
                    out
                })
            })
            .collect();
        hs.into_iter().map(|h| h.join().unwrap()).collect()
    });
    let mut all: Vec<_> = parts.into_iter().flatten().collect();
    all.sort_by_key(|x| x.0);
    let (mut states, mut edges, mut acts) = (0u64, 0u64, 0u64);
    let mut samples = vec![];
    let mut reported = vec![];
    for (i, r, leak) in all {
        states += r.states;
        edges += r.edges;
        acts += r.actions_compared;
        if let Some(s) = r.sample {
            if samples.len() < 3 {
                samples.push(s);
            }
        }
        let cfg = &cfgs[i];
        if let Some((h, msg)) = r.violation {
            if reported.len() < 12 {
                reported.push(Rep { signature: format!("C20:{}:{}", cfg.label, first_line(&msg).chars().take(80).collect::<String>()), summary: format!("[{}] after {} calls: {}", cfg.label, h.len(), msg), replay: json!({"property": "C20", "engine": "E1xFFI", "config": {"label": cfg.label, "machines": cfg.machines.iter().map(|m| m.serialize()).collect::<Vec<_>>(), "max_padding_frac": cfg.pad_frac}, "history": h.iter().map(|b| batch_to_strings(b)).collect::<Vec<_>>(), "message": msg}) });
            }
        }
        if let Some(l) = leak {
            if reported.len() < 12 {
                reported.push(Rep { signature: format!("C20:leak:{}", cfg.label), summary: format!("[{}] {}", cfg.label, l), replay: json!({"property": "C20", "engine": "E1xFFI", "config": {"label": cfg.label, "machines": cfg.machines.iter().map(|m| m.serialize()).collect::<Vec<_>>(), "max_padding_frac": cfg.pad_frac}, "history": [], "message": l}) });
            }
        }
    }
    let (start_cases, start_fails) = if ctx.only_unit.is_none() { start_argument_cases() } else { (0, vec![]) };
    for f in start_fails.iter().take(10) {
        reported.push(Rep { signature: format!("C20:start:{}", first_line(f).chars().take(90).collect::<String>()), summary: f.clone(), replay: json!({"property": "C20", "engine": "E1xFFI", "message": f}) });
    }
    if samples.is_empty() {
        samples.push(json!("none"));
    }
    let coverage = json!({
        "states": states, "transitions": edges, "traces_validated_against_impl": edges, "samples": samples,
        "evaluations": edges + start_cases, "distinct_nontrivial": states, "rule": RULE, "exhaustive": ctx.only_unit.is_none() && skipped.load(Ordering::Relaxed) == 0,
        "configurations_skipped_after_the_wall_budget": skipped.load(Ordering::Relaxed), "wall_budget_s": budget_s,
        "configurations": cfgs.len(), "depth_bound": depth, "actions_compared_field_by_field": acts, "start_argument_and_null_pointer_cases": start_cases,
        "wall_s": t0.elapsed().as_secs_f64(),
    });
    let vacuous = if acts < 1000 && ctx.only_unit.is_none() && reported.is_empty() { Some(format!("only {acts} actions compared")) } else { None };
    WorkerOut { level: "model_checking", coverage, assumptions: vec!["machines with deterministic sampling and time-independent budgets, so neither the API's OS-seeded RNG nor its Instant::now() can influence results (the premise the property states)".into(), "callers honour the documented safety contract (valid machine-string pointer, pointer given to maybenot_stop)".into()], reported, vacuous }
}

pub fn replay(v: &Value) -> Result<Option<String>, String> {
    let ms: Vec<String> = v["config"]["machines"].as_array().ok_or("no machines")?.iter().map(|x| x.as_str().unwrap_or("").to_string()).collect();
    let machines = machines_from_strings(&ms)?;
    let pf = v["config"]["max_padding_frac"].as_f64().unwrap_or(0.0);
    let mut hist: Vec<Vec<TriggerEvent>> = vec![];
    for b in v["history"].as_array().ok_or("no history")? {
        hist.push(b.as_array().ok_or("batch")?.iter().map(|e| ev_from_string(e.as_str().unwrap_or("")).ok_or("bad event")).collect::<Result<Vec<_>, _>>()?);
    }
    let run1 = || -> Result<Option<String>, String> {
        let n = machines.len();
        let t0 = std::time::Instant::now();
        let mut tw = Framework::new(machines.clone(), pf, 0.0, t0, WordRng::new(&[], 1)).map_err(|e| format!("{:?}", e))?;
        let s = CString::new(machines.iter().map(|m| m.serialize()).collect::<Vec<_>>().join("\n")).unwrap();
        let inst = match c_start(&s, pf, 0.0) {
            Ok(i) => i,
            Err(c) => return Ok(Some(format!("maybenot_start failed with code {c}"))),
        };
        for (i, b) in hist.iter().enumerate() {
            let expect: Vec<Act> = tw.trigger_events(b, t0).map(conv_std).collect();
            let got = match c_call(&inst, b, n) {
                Ok(g) => g,
                Err(e) => return Ok(Some(format!("call {i}: {e}"))),
            };
            if got.len() != expect.len() {
                return Ok(Some(format!("call {i}: C API wrote {:?}, Rust returned {:?}", got, expect)));
            }
            for (c, r) in got.iter().zip(expect.iter()) {
                if let Err(e) = compare_action(c, r) {
                    return Ok(Some(format!("call {i}: {e}")));
                }
            }
        }
        Ok(None)
    };
    let a = run1()?;
    let b = run1()?;
    if a.is_some() != b.is_some() {
        return Err("replay not deterministic".into());
    }
    Ok(a)
}
