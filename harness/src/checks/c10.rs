//! C10 — non-interference. Product exploration of (combined framework, solo
//! framework): the subject machine S runs next to neighbours in the combined
//! instance and alone in the solo instance; the solo run gets the same history
//! with S's id mapped to 0 and every other addressed id mapped to an unknown
//! id. S's action stream (id renamed) must be identical, call by call.
//! All machines sample deterministically (probability-1 transitions, constant
//! distributions) and never signal; framework fractions are 0.
use super::*;
use crate::clock;
use crate::fam;
use crate::rng;
use crate::types::*;
use maybenot::constants::STATE_SIGNAL;
use maybenot::dist::{Dist, DistType};
use maybenot::event::TriggerEvent;
use maybenot::Machine;
use std::collections::HashSet;
use std::sync::atomic::{AtomicBool, AtomicUsize, Ordering};
use std::sync::Arc;

fn const_dist(d: &Dist) -> bool {
    matches!(d.dist, DistType::Uniform { low, high } if low == high)
}
pub fn deterministic(m: &Machine) -> bool {
    use maybenot::action::Action::*;
    for s in &m.states {
        for (_, v) in s.get_transitions() {
            if v.len() > 1 || v.iter().any(|t| t.1 != 1.0 || t.0 == STATE_SIGNAL) {
                return false;
            }
        }
        let ok = match &s.action {
            None | Some(Cancel { .. }) => true,
            Some(SendPadding { timeout, limit, .. }) => const_dist(timeout) && limit.map(|l| const_dist(&l)).unwrap_or(true),
            Some(BlockOutgoing { timeout, duration, limit, .. }) => const_dist(timeout) && const_dist(duration) && limit.map(|l| const_dist(&l)).unwrap_or(true),
            Some(UpdateTimer { duration, limit, .. }) => const_dist(duration) && limit.map(|l| const_dist(&l)).unwrap_or(true),
        };
        if !ok {
            return false;
        }
        for c in [&s.counter.0, &s.counter.1] {
            if let Some(c) = c {
                if !c.copy && !c.dist.map(|d| const_dist(&d)).unwrap_or(true) {
                    return false;
                }
            }
        }
    }
    true
}

#[derive(Clone)]
pub struct Pcfg {
    pub label: String,
    pub combined: Vec<Machine>,
    pub pos: usize,
}

fn map_event(e: &TriggerEvent, pos: usize) -> TriggerEvent {
    let mp = |m: &maybenot::MachineId| if m.into_raw() == pos { mid(0) } else { mid(1) };
    match e {
        TriggerEvent::PaddingSent { machine } => TriggerEvent::PaddingSent { machine: mp(machine) },
        TriggerEvent::BlockingBegin { machine } => TriggerEvent::BlockingBegin { machine: mp(machine) },
        TriggerEvent::TimerBegin { machine } => TriggerEvent::TimerBegin { machine: mp(machine) },
        TriggerEvent::TimerEnd { machine } => TriggerEvent::TimerEnd { machine: mp(machine) },
        other => other.clone(),
    }
}

pub struct PRes {
    pub states: u64,
    pub transitions: u64,
    pub engaged: u64,
    pub nontrivial_states: u64,
    pub violation: Option<(Vec<(Vec<TriggerEvent>, u64)>, String)>,
    pub sample: Option<Value>,
    pub capped: bool,
}

pub fn batches(n: usize, pairs: bool) -> Vec<Vec<TriggerEvent>> {
    let singles = all_single_events(n, false);
    let mut b: Vec<Vec<TriggerEvent>> = singles.iter().map(|e| vec![e.clone()]).collect();
    if pairs {
        for x in &singles {
            for y in &singles {
                b.push(vec![x.clone(), y.clone()]);
            }
        }
    }
    b
}

pub fn explore_product(pc: &Pcfg, depth: usize, deltas: &[i64], pairs: bool, max_states: usize, deadline: Option<std::time::Instant>) -> PRes {
    rng::set_menu(1, 1);
    let mut res = PRes { states: 0, transitions: 0, engaged: 0, nontrivial_states: 0, violation: None, sample: None, capped: false };
    let start = 1000u64;
    let cc = Cfg::new("combined", pc.combined.clone(), 0.0, 0.0);
    let sc = Cfg::new("solo", vec![pc.combined[pc.pos].clone()], 0.0, 0.0);
    let cms = Ms(Arc::new(cc.machines.clone()));
    let sms = Ms(Arc::new(sc.machines.clone()));
    let (f0, g0) = match (new_fw(&cc, &cms, &[]), new_fw(&sc, &sms, &[])) {
        (Ok(a), Ok(b)) => (a, b),
        (a, b) => {
            res.violation = Some((vec![], format!("construction failed: {:?} / {:?}", a.err(), b.err())));
            return res;
        }
    };
    let bs = batches(pc.combined.len(), pairs);
    struct Node {
        parent: u32,
        batch: u16,
        now: u64,
    }
    let mut nodes = vec![Node { parent: u32::MAX, batch: u16::MAX, now: start }];
    let hist = |nodes: &Vec<Node>, mut id: u32| -> Vec<(Vec<TriggerEvent>, u64)> {
        let mut v = vec![];
        while id != 0 {
            let n = &nodes[id as usize];
            v.push((bs[n.batch as usize].clone(), n.now));
            id = n.parent;
        }
        v.reverse();
        v
    };
    let mut seen: HashSet<u128> = HashSet::new();
    seen.insert(hash128(&format!("{}#{}", fw_key_string(&f0, start), fw_key_string(&g0, start))));
    res.states = 1;
    let mut frontier = vec![(f0, g0, start, 0u32)];
    for d in 0..depth {
        let mut next = vec![];
        for (f, g, t, nid) in &frontier {
            for (bi, b) in bs.iter().enumerate() {
                let sb: Vec<TriggerEvent> = b.iter().map(|e| map_event(e, pc.pos)).collect();
                for dl in deltas {
                    let nt = clock::step(*t, *dl);
                    let mut f2 = f.clone();
                    let mut g2 = g.clone();
                    let ra = run_call(&mut f2, b, nt, &[]);
                    let rb = run_call(&mut g2, &sb, nt, &[]);
                    res.transitions += 1;
                    if res.transitions & 0xFFFF == 0 {
                        crate::supervise::beat();
                        if deadline.map(|d| std::time::Instant::now() > d).unwrap_or(false) {
                            res.capped = true;
                            return res;
                        }
                    }
                    let (Ok((ca, _)), Ok((sa, _))) = (&ra, &rb) else {
                        continue; // a panic is C01's business
                    };
                    let mine: Vec<Act> = ca.iter().filter(|a| a.machine() == pc.pos).map(|a| a.with_machine(0)).collect();
                    if mine != *sa {
                        let mut h = hist(&nodes, *nid);
                        h.push((b.clone(), nt));
                        res.violation = Some((h, format!("subject machine (position {} of {}) returned {:?} next to its neighbours but {:?} when run alone on the same history", pc.pos, pc.combined.len(), mine, sa)));
                        return res;
                    }
                    let engaged = !sa.is_empty();
                    if engaged {
                        res.engaged += 1;
                    }
                    let k = hash128(&format!("{}#{}", fw_key_string(&f2, nt), fw_key_string(&g2, nt)));
                    if seen.insert(k) {
                        res.states += 1;
                        if engaged {
                            res.nontrivial_states += 1;
                        }
                        let id = nodes.len() as u32;
                        nodes.push(Node { parent: *nid, batch: bi as u16, now: nt });
                        if res.sample.is_none() && engaged && d >= 1 {
                            let h = hist(&nodes, id);
                            res.sample = Some(json!({"config": pc.label, "history": h.iter().map(|(b, t)| json!({"batch": batch_to_strings(b), "now_us": t})).collect::<Vec<_>>(), "subject_actions_in_both_runs": format!("{:?}", sa)}));
                        }
                        next.push((f2, g2, nt, id));
                        if nodes.len() > max_states {
                            res.capped = true;
                            return res;
                        }
                    }
                }
            }
        }
        frontier = next;
        if frontier.is_empty() {
            break;
        }
    }
    res
}

fn det_library(q: bool) -> Vec<(String, Machine)> {
    let mut lib = vec![];
    lib.extend(fam::g1(if q { 7 } else { 1 }));
    lib.extend(fam::g2(if q { 199 } else { 23 }, 6));
    lib.extend(fam::p_ctr().into_iter().step_by(if q { 3 } else { 1 }));
    lib.extend(fam::p_lim());
    lib.extend(fam::p_blk());
    lib.extend(fam::p_pad());
    lib.into_iter().filter(|(_, m)| deterministic(m)).collect()
}

pub fn product_configs(q: bool) -> Vec<Pcfg> {
    let lib = det_library(q);
    let n = lib.len();
    let mut v = vec![];
    let stride = if q { 3 } else { 1 };
    for i in (0..n).step_by(stride) {
        for k in 0..(if q { 2 } else { 4 }) {
            let j = (i * 31 + 7 + k * 101) % n;
            let j2 = (i * 17 + 3 + k * 57) % n;
            let (sn, s) = &lib[i];
            let (nn, nb) = &lib[j];
            let (nn2, nb2) = &lib[j2];
            v.push(Pcfg { label: format!("[{nn}, *{sn}*]"), combined: vec![nb.clone(), s.clone()], pos: 1 });
            v.push(Pcfg { label: format!("[*{sn}*, {nn}]"), combined: vec![s.clone(), nb.clone()], pos: 0 });
            if k == 0 {
                v.push(Pcfg { label: format!("[{nn}, *{sn}*, {nn2}]"), combined: vec![nb.clone(), s.clone(), nb2.clone()], pos: 1 });
            }
        }
    }
    // counter probes next to counter probes: the neighbour zeroes a counter on the same event
    let ctr: Vec<_> = lib.iter().filter(|(n, _)| n.starts_with("ctr[")).cloned().collect();
    for (i, (sn, s)) in ctr.iter().enumerate() {
        let (nn, nb) = &ctr[(i * 7 + 1) % ctr.len()];
        v.push(Pcfg { label: format!("[{nn}, *{sn}*]"), combined: vec![nb.clone(), s.clone()], pos: 1 });
        v.push(Pcfg { label: format!("[*{sn}*, {nn}]"), combined: vec![s.clone(), nb.clone()], pos: 0 });
    }
    v
}

pub const RULE: &str = "product BFS over (combined framework, solo framework), both the real implementation; operations = every single event (ids of all machines + one unknown id) x time steps, solo history derived by id mapping; compared on the subject's returned actions at every transition. distinct_nontrivial = distinct product states first reached by a call in which the subject returned an action";

pub fn worker(ctx: &WorkerCtx) -> WorkerOut {
    let q = ctx.quick();
    let cfgs = product_configs(q);
    // every configuration to depth 4; thorough: then as many as a wall budget allows to depth 6 (reported as such)
    let depth = 4;
    let deep_depth = 6;
    let deep_budget_s = 1500u64;
    let deltas: Vec<i64> = vec![0, 1];
    let crumbs = crate::supervise::global_crumbs();
    let only = ctx.only_unit;
    let t0 = std::time::Instant::now();
    let pass = |depth: usize, deadline: Option<std::time::Instant>| -> Vec<Vec<(usize, PRes)>> {
        let next = AtomicUsize::new(0);
        let stop = AtomicBool::new(false);
        std::thread::scope(|sc| {
            let hs: Vec<_> = (0..ctx.threads())
                .map(|ti| {
                    let (next, stop, cfgs, deltas) = (&next, &stop, &cfgs, &deltas);
                    std::thread::Builder::new()
                        .stack_size(64 << 20)
                        .spawn_scoped(sc, move || {
                            let mut out = vec![];
                            loop {
                                let i = next.fetch_add(1, Ordering::Relaxed);
                                if i >= cfgs.len() || stop.load(Ordering::Relaxed) {
                                    break;
                                }
                                if only.is_some() && only != Some(i as u64) {
                                    continue;
                                }
                                if deadline.map(|d| std::time::Instant::now() > d).unwrap_or(false) {
                                    break;
                                }
                                if let Some(c) = crumbs {
                                    c.set(ti, i as u64);
                                }
                                let uses_time = fam::uses_blocking(&cfgs[i].combined);
                                let r = explore_product(&cfgs[i], depth, if uses_time { deltas } else { &deltas[..1] }, false, 300_000, deadline);
                                out.push((i, r));
                            }
                            if let Some(c) = crumbs {
                                c.set(ti, u64::MAX);
                            }
                            out
                        })
                        .unwrap()
                })
                .collect();
            hs.into_iter().map(|h| h.join().unwrap()).collect()
        })
    };
    let results = pass(depth, None);
    let (mut deep_done, mut deep_states, mut deep_transitions) = (0usize, 0u64, 0u64);
    let mut deep_violations: Vec<(usize, PRes)> = vec![];
    if !q && only.is_none() {
        let dl = std::time::Instant::now() + std::time::Duration::from_secs(deep_budget_s);
        for (i, r) in pass(deep_depth, Some(dl)).into_iter().flatten() {
            if !r.capped {
                deep_done += 1;
            }
            deep_states += r.states;
            deep_transitions += r.transitions;
            if r.violation.is_some() {
                deep_violations.push((i, r));
            }
        }
    }
    let mut all: Vec<(usize, PRes)> = results.into_iter().flatten().collect();
    all.extend(deep_violations);
    all.sort_by_key(|x| x.0);
    let (mut states, mut transitions, mut engaged, mut nontrivial, mut capped) = (0u64, 0u64, 0u64, 0u64, 0usize);
    let mut samples = vec![];
    let mut reported = vec![];
    for (i, r) in all {
        states += r.states;
        transitions += r.transitions;
        engaged += r.engaged;
        nontrivial += r.nontrivial_states;
        if r.capped {
            capped += 1;
        }
        if let Some(s) = r.sample {
            if samples.len() < 4 {
                samples.push(s);
            }
        }
        if let Some((h, msg)) = r.violation {
            if reported.len() < 12 {
                let pc = &cfgs[i];
                reported.push(Rep {
                    signature: format!("C10:{}:{}", pc.label, first_line(&msg)),
                    summary: format!("[{}] after {} calls: {}", pc.label, h.len(), msg),
                    replay: json!({
                        "property": "C10", "engine": "E1-product", "message": msg,
                        "config": {"label": pc.label, "machines": pc.combined.iter().map(|m| m.serialize()).collect::<Vec<_>>(), "machines_debug": pc.combined.iter().map(|m| format!("{:?}", m)).collect::<Vec<_>>(), "subject_position": pc.pos},
                        "ops": h.iter().map(|(b, t)| json!({"batch": batch_to_strings(b), "now_us": t})).collect::<Vec<_>>(),
                    }),
                });
            }
        }
    }
    if samples.is_empty() {
        samples.push(json!("none"));
    }
    let coverage = json!({
        "states": states, "transitions": transitions, "traces_validated_against_impl": transitions, "samples": samples,
        "evaluations": transitions, "distinct_nontrivial": nontrivial, "rule": RULE,
        "exhaustive": capped == 0 && reported.is_empty() && only.is_none(),
        "product_configurations": cfgs.len(), "depth_bound": depth, "time_steps_us": deltas, "configs_hitting_state_cap": capped,
        "transitions_in_which_the_subject_acted": engaged, "wall_s": t0.elapsed().as_secs_f64(),
        "deeper_pass": {"depth_bound": deep_depth, "wall_budget_s": deep_budget_s, "configurations_completed": deep_done, "of": cfgs.len(), "states": deep_states, "transitions": deep_transitions, "note": "thorough tier only; configurations taken in index order until the budget ran out; the exhaustive claim is for depth_bound"},
    });
    let vacuous = if nontrivial < 1000 && only.is_none() && reported.is_empty() { Some(format!("only {nontrivial} non-trivial states")) } else { None };
    WorkerOut {
        level: "model_checking",
        coverage,
        assumptions: vec!["subjects and neighbours sample deterministically and never signal; framework fractions 0; neighbours' addressed events are unknown ids in the solo run".into()],
        reported,
        vacuous,
    }
}

pub fn replay(v: &Value) -> Result<Option<String>, String> {
    let ms: Vec<String> = v["config"]["machines"].as_array().ok_or("no machines")?.iter().map(|x| x.as_str().unwrap_or("").to_string()).collect();
    let combined = machines_from_strings(&ms)?;
    let pos = v["config"]["subject_position"].as_u64().ok_or("no position")? as usize;
    let mut ops = vec![];
    for op in v["ops"].as_array().ok_or("no ops")? {
        let b = op["batch"].as_array().ok_or("no batch")?.iter().map(|e| ev_from_string(e.as_str().unwrap_or("")).ok_or("bad event")).collect::<Result<Vec<_>, _>>()?;
        ops.push((b, op["now_us"].as_u64().ok_or("no now")?));
    }
    let run = || -> Result<Option<String>, String> {
        rng::set_menu(1, 1);
        let cc = Cfg::new("combined", combined.clone(), 0.0, 0.0);
        let sc = Cfg::new("solo", vec![combined[pos].clone()], 0.0, 0.0);
        let mut f = new_fw(&cc, &Ms(Arc::new(cc.machines.clone())), &[])?;
        let mut g = new_fw(&sc, &Ms(Arc::new(sc.machines.clone())), &[])?;
        for (i, (b, t)) in ops.iter().enumerate() {
            let sb: Vec<TriggerEvent> = b.iter().map(|e| map_event(e, pos)).collect();
            let (ca, _) = run_call(&mut f, b, *t, &[])?;
            let (sa, _) = run_call(&mut g, &sb, *t, &[])?;
            let mine: Vec<Act> = ca.iter().filter(|a| a.machine() == pos).map(|a| a.with_machine(0)).collect();
            if mine != sa {
                return Ok(Some(format!("call {i}: next to neighbours {:?}, alone {:?}", mine, sa)));
            }
        }
        Ok(None)
    };
    let a = run()?;
    let b = run()?;
    if a != b {
        return Err("replay not deterministic".into());
    }
    Ok(a)
}
