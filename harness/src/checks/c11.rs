//! C11 (engine E3) — machine strings round-trip exactly and hostile strings
//! are rejected safely. Valid side: bounded-exhaustive over machine programs and
//! size classes. Hostile side: exhaustive *fault enumeration* of valid encodings
//! (every truncation, every single substitution / insertion, every single bit
//! flip at the compressed and at the bincode layer, every version prefix), all
//! short strings over a small alphabet, the legacy v1 parser with a harness-side
//! encoder, and compression bombs with a heap-peak oracle.
use super::*;
use crate::alloc;
use crate::fam::{self, c, st_map, u};
use crate::rng::WordRng;
use crate::types::conv_std;
use base64::prelude::*;
use enum_map::{enum_map, EnumMap};
use flate2::write::ZlibEncoder;
use flate2::Compression;
use maybenot::action::{Action, Timer};
use maybenot::counter::{Counter, Operation};
use maybenot::dist::{Dist, DistType};
use maybenot::event::{Event, TriggerEvent};
use maybenot::parsing::parse_v1_machine;
use maybenot::state::Trans;
use maybenot::{Framework, Machine, MachineId};
use std::io::Write;
use std::str::FromStr;
use std::sync::atomic::{AtomicUsize, Ordering};

/// peak heap allowed for one `from_str` call: a constant fixed by the 1 MiB
/// decoded-size limit (in-memory machine of the largest decodable encoding,
/// incl. transient vector growth) plus a multiple of the input length.
pub const MEM_CONST: isize = 256 << 20;
pub fn mem_bound(input_len: usize) -> isize {
    MEM_CONST + 8 * input_len as isize
}

fn bincode_opts() -> impl bincode::Options {
    use bincode::Options;
    bincode::DefaultOptions::new().with_limit(1 << 20)
}
pub fn encode_layers(m: &Machine) -> (Vec<u8>, Vec<u8>, String) {
    use bincode::Options;
    let bin = bincode_opts().serialize(m).expect("bincode");
    let comp = compress(&bin);
    let s = format!("02{}", BASE64_STANDARD.encode(&comp));
    (bin, comp, s)
}
pub fn compress(b: &[u8]) -> Vec<u8> {
    let mut e = ZlibEncoder::new(Vec::new(), Compression::best());
    e.write_all(b).unwrap();
    e.finish().unwrap()
}
pub fn string_of_bin(bin: &[u8]) -> String {
    format!("02{}", BASE64_STANDARD.encode(compress(bin)))
}
pub fn string_of_comp(comp: &[u8]) -> String {
    format!("02{}", BASE64_STANDARD.encode(comp))
}

#[derive(Default, Clone)]
pub struct HostileStats {
    pub inputs: u64,
    pub ok: u64,
    pub err: u64,
    pub classes: std::collections::BTreeMap<String, u64>,
    pub max_peak: isize,
}

/// "A machine that passes validation" is judged by the validation contract, not only by calling the
/// validator the parser itself relies on: the machine returned for a hostile string must satisfy the
/// independent well-formedness predicate (C12's) and must be able to drive a framework without panicking.
fn accepted_is_sound(m: &Machine, parser: &str) -> Result<(), String> {
    super::c12::wellformed(m).map_err(|e| format!("{parser} returned a machine that is not well-formed although validate() accepts it: {e}"))?;
    super::c12::drive(m).map_err(|e| format!("{parser} returned a machine that {e}"))
}

/// Oracle for one arbitrary string through the current parser.
pub fn judge_hostile(s: &str, st: &mut HostileStats) -> Result<(), String> {
    st.inputs += 1;
    let base = alloc::reset_peak();
    let r = std::panic::catch_unwind(|| Machine::from_str(s));
    let peak = alloc::peak_since(base);
    if peak > st.max_peak {
        st.max_peak = peak;
    }
    match r {
        Err(_) => return Err(format!("Machine::from_str panicked: {}", crate::explore::last_panic())),
        Ok(Err(e)) => {
            st.err += 1;
            let msg = format!("{}", e);
            let class: String = msg.split(|c: char| c.is_ascii_digit()).next().unwrap_or("").chars().take(40).collect();
            *st.classes.entry(class).or_insert(0) += 1;
        }
        Ok(Ok(m)) => {
            st.ok += 1;
            *st.classes.entry("Ok".into()).or_insert(0) += 1;
            match std::panic::catch_unwind(|| m.validate()) {
                Ok(Ok(())) => {}
                Ok(Err(e)) => return Err(format!("Machine::from_str returned a machine that does not pass validation: {}", e)),
                Err(_) => return Err("validate() panicked on a parsed machine".into()),
            }
            accepted_is_sound(&m, "Machine::from_str")?;
        }
    }
    if peak > mem_bound(s.len()) {
        return Err(format!("Machine::from_str used {} bytes of heap at its peak for an input of {} bytes (bound: {} + 8 x input length)", peak, s.len(), MEM_CONST));
    }
    Ok(())
}
pub fn judge_hostile_v1(s: &str, st: &mut HostileStats) -> Result<(), String> {
    st.inputs += 1;
    match std::panic::catch_unwind(|| parse_v1_machine(s)) {
        Err(_) => Err(format!("parse_v1_machine panicked: {}", crate::explore::last_panic())),
        Ok(Err(e)) => {
            st.err += 1;
            let msg = format!("{}", e);
            let class: String = format!("v1:{}", msg.split(|c: char| c.is_ascii_digit()).next().unwrap_or("").chars().take(40).collect::<String>());
            *st.classes.entry(class).or_insert(0) += 1;
            Ok(())
        }
        Ok(Ok(m)) => {
            st.ok += 1;
            *st.classes.entry("v1:Ok".into()).or_insert(0) += 1;
            match m.validate() {
                Ok(()) => accepted_is_sound(&m, "parse_v1_machine"),
                Err(e) => Err(format!("parse_v1_machine returned a machine that does not pass validation: {}", e)),
            }
        }
    }
}

// ---------------------------------------------------------------------------
// valid side
// ---------------------------------------------------------------------------
pub fn all_variants_machine() -> Machine {
    use Event::*;
    let dists: Vec<Dist> = vec![
        Dist::new(DistType::Uniform { low: -0.0, high: f64::MAX / 2.0 }, f64::MIN_POSITIVE, 1e300),
        Dist::new(DistType::Normal { mean: -1e300, stdev: f64::from_bits(1) }, 0.0, 0.0),
        Dist::new(DistType::SkewNormal { location: 1.0, scale: 1e-300, shape: -1e300 }, 5.0, 6.0),
        Dist::new(DistType::LogNormal { mu: 700.0, sigma: 0.0 }, 0.0, u64::MAX as f64),
        Dist::new(DistType::Binomial { trials: 1_000_000_000, probability: 1e-9 }, 0.0, 0.0),
        Dist::new(DistType::Geometric { probability: 1.0 }, 0.0, 0.0),
        Dist::new(DistType::Pareto { scale: f64::MIN_POSITIVE, shape: f64::MAX }, 0.0, 0.0),
        Dist::new(DistType::Poisson { lambda: 1e42 }, 0.0, 0.0),
        Dist::new(DistType::Weibull { scale: 1e300, shape: 1e-300 }, 0.0, 0.0),
        Dist::new(DistType::Gamma { scale: 1.0, shape: 2.0 }, f64::NAN, f64::NEG_INFINITY),
        Dist::new(DistType::Beta { alpha: 0.5, beta: 1e300 }, f64::INFINITY, -0.0),
    ];
    let mut states = vec![];
    let n = 15;
    for i in 0..n {
        let d = dists[i % dists.len()];
        let d2 = dists[(i + 3) % dists.len()];
        let action = match i % 6 {
            0 => Some(Action::Cancel { timer: Timer::Action }),
            1 => Some(Action::SendPadding { bypass: i % 2 == 0, replace: i % 3 == 0, timeout: d, limit: Some(d2) }),
            2 => Some(Action::BlockOutgoing { bypass: true, replace: false, timeout: d, duration: d2, limit: None }),
            3 => Some(Action::UpdateTimer { replace: true, duration: d, limit: Some(d2) }),
            4 => Some(Action::Cancel { timer: if i % 4 == 0 { Timer::Internal } else { Timer::All } }),
            _ => None,
        };
        let counter = match i % 5 {
            0 => (None, None),
            1 => (Some(Counter::new(Operation::Increment)), Some(Counter::new_copy(Operation::Set))),
            2 => (Some(Counter::new_dist(Operation::Decrement, d)), None),
            3 => (None, Some(Counter::new_dist(Operation::Set, d2))),
            _ => (Some(Counter::new_copy(Operation::Decrement)), Some(Counter::new(Operation::Decrement))),
        };
        let mut t: EnumMap<Event, Vec<Trans>> = enum_map! { _ => vec![] };
        for (k, e) in Event::iter().enumerate() {
            if (i + k) % 3 == 0 {
                t[*e] = vec![Trans((i + k) % n, 0.25), Trans(fam::END, f32::EPSILON), Trans(fam::SIG, 1.0 / 3.0)];
            } else if (i + k) % 3 == 1 {
                t[*e] = vec![Trans((i * k) % n, 1.0)];
            }
        }
        let _ = (NormalSent, PaddingSent);
        states.push(st_map(t, action, counter));
    }
    Machine::new(u64::MAX, 1.0, u64::MAX, f64::MIN_POSITIVE, states).expect("all-variants machine validates")
}

/// n states; `rich` = every state carries pseudo-random distinct parameters (incompressible).
/// n states without transitions, actions or counters: the smallest encoding per state, i.e. the
/// largest in-memory machine a 1 MiB encoding can describe
pub fn bare_machine(n: usize) -> Machine {
    let s = st_map(enum_map! { _ => vec![] }, None, (None, None));
    Machine::new(0, 0.0, 0, 0.0, vec![s; n]).expect("bare machine validates")
}
/// largest n whose machine (built by `mk`) still encodes within 1 MiB
pub fn largest_fitting(mk: &dyn Fn(usize) -> Machine, hi: usize) -> usize {
    let (mut lo, mut hi) = (1usize, hi);
    while lo < hi {
        let mid = (lo + hi + 1) / 2;
        if bincode_size(&mk(mid)) <= (1 << 20) {
            lo = mid;
        } else {
            hi = mid - 1;
        }
    }
    lo
}

/// n states stuffed with entropy: every distribution's parameters, start and max are random bit patterns
/// (start / max are not constrained by validation), so the encoding hardly compresses and the *string* of a
/// machine that fits 1 MiB decoded is longer than 1 MiB.
pub fn entropy_machine(n: usize, seed: u64) -> Machine {
    use rand_core::RngCore;
    let mut r = WordRng::new(&[], seed ^ 0xE17);
    let mut rnd = move || -> f64 {
        loop {
            let x = f64::from_bits(r.next_u64());
            if x.is_finite() {
                return x;
            }
        }
    };
    let mut states = Vec::with_capacity(n);
    for i in 0..n {
        let mut d = || Dist { dist: DistType::Normal { mean: rnd(), stdev: rnd() }, start: rnd(), max: rnd() };
        let mut t: EnumMap<Event, Vec<Trans>> = enum_map! { _ => vec![] };
        t[Event::NormalSent] = vec![Trans((i + 1) % n, 1.0)];
        let a = Action::BlockOutgoing { bypass: i % 2 == 0, replace: i % 3 == 0, timeout: d(), duration: d(), limit: Some(d()) };
        states.push(st_map(t, Some(a), (Some(Counter::new_dist(Operation::Increment, d())), Some(Counter::new_dist(Operation::Set, d())))));
    }
    Machine::new(10, 0.5, 10, 0.5, states).expect("entropy machine validates")
}
/// A compressible machine whose bincode encoding has exactly `target` bytes (header varints and extra
/// transitions are tuned to fill the gap); None if the small search does not hit it.
pub fn exact_size_machine(target: u64) -> Option<Machine> {
    let base_n = largest_fitting(&|n| sized_machine(n, false, 1), 200_000);
    for d in 0..6usize {
        let n = base_n.saturating_sub(d).max(2);
        for hdr in [0u64, 1 << 8, 1 << 16, 1 << 32] {
            for hdr2 in [0u64, 1 << 8, 1 << 16, 1 << 32] {
                for extra in 0..40usize {
                    let mut m = sized_machine(n, false, 1);
                    m.allowed_padding_packets = 10 + hdr;
                    m.allowed_blocked_microsec = 10 + hdr2;
                    // extra transitions: one more (target, probability) pair per step on successive states
                    for k in 0..extra {
                        let mut t = m.states[k].get_transitions();
                        t[Event::TunnelRecv] = vec![Trans((k + 2) % n.min(200), 0.5)];
                        let mut s2 = maybenot::state::State::new(t);
                        s2.action = m.states[k].action;
                        s2.counter = m.states[k].counter;
                        m.states[k] = s2;
                    }
                    let sz = bincode_size(&m);
                    if sz == target && m.validate().is_ok() {
                        return Some(m);
                    }
                    if sz > target {
                        break;
                    }
                }
            }
        }
    }
    None
}

pub fn sized_machine(n: usize, rich: bool, seed: u64) -> Machine {
    use rand_core::RngCore;
    let mut r = WordRng::new(&[], seed);
    let mut states = Vec::with_capacity(n);
    for i in 0..n {
        let f = |r: &mut WordRng| (r.next_u64() >> 11) as f64 / (1u64 << 53) as f64;
        let (a, ctr, t): (Option<Action>, (Option<Counter>, Option<Counter>), EnumMap<Event, Vec<Trans>>) = if rich {
            let d1 = Dist::new(DistType::Normal { mean: f(&mut r) * 1e6, stdev: f(&mut r) * 1e3 }, f(&mut r), f(&mut r) * 1e7);
            let d2 = Dist::new(DistType::Pareto { scale: f(&mut r) + 0.1, shape: f(&mut r) + 0.1 }, f(&mut r), 0.0);
            let d3 = Dist::new(DistType::Uniform { low: f(&mut r), high: 1.0 + f(&mut r) * 10.0 }, 0.0, 0.0);
            let mut t: EnumMap<Event, Vec<Trans>> = enum_map! { _ => vec![] };
            for e in Event::iter() {
                let p = (f(&mut r) * 0.5 + 0.001) as f32;
                t[*e] = vec![Trans((r.next_u64() % n as u64) as usize, p), Trans((i + 1) % n, 0.25)];
                if t[*e][0].0 == t[*e][1].0 {
                    t[*e].pop();
                }
            }
            (Some(Action::BlockOutgoing { bypass: i % 2 == 0, replace: i % 3 == 0, timeout: d1, duration: d2, limit: Some(d3) }), (Some(Counter::new_dist(Operation::Increment, d3)), Some(Counter::new_dist(Operation::Set, d1))), t)
        } else {
            let mut t: EnumMap<Event, Vec<Trans>> = enum_map! { _ => vec![] };
            t[Event::NormalSent] = vec![Trans((i + 1) % n, 1.0)];
            (if i % 2 == 0 { Some(fam::pad(false, false, 1.0, None)) } else { None }, (None, None), t)
        };
        states.push(st_map(t, a, ctr));
    }
    Machine::new(10, 0.5, 10, 0.5, states).expect("sized machine validates")
}

pub fn bincode_size(m: &Machine) -> u64 {
    use bincode::Options;
    bincode::DefaultOptions::new().serialized_size(m).unwrap_or(u64::MAX)
}

/// Round-trip oracle for one valid machine.
pub fn judge_roundtrip(m: &Machine, label: &str, behaviour: bool) -> Result<(), String> {
    let r = std::panic::catch_unwind(std::panic::AssertUnwindSafe(|| -> Result<(), String> {
        let s = m.serialize();
        let base = alloc::reset_peak();
        let m2 = Machine::from_str(&s).map_err(|e| format!("{label}: parsing the serialized string of a valid machine ({} chars, {} bytes decoded) failed: {}", s.len(), bincode_size(m), e))?;
        let peak = alloc::peak_since(base);
        if peak > mem_bound(s.len()) {
            return Err(format!("{label}: from_str used {peak} bytes of heap for a {} byte string", s.len()));
        }
        let s2 = m2.serialize();
        if s2 != s {
            return Err(format!("{label}: re-serializing the parsed machine gives a different string ({} vs {} chars)", s2.len(), s.len()));
        }
        if m2.name() != m.name() {
            return Err(format!("{label}: name changed by the round trip"));
        }
        if format!("{:?}", m2) != format!("{:?}", m) {
            return Err(format!("{label}: the parsed machine differs from the original (Debug output)"));
        }
        if behaviour {
            // both drive a framework identically
            let evs = |i: usize| -> TriggerEvent {
                let id = MachineId::from_raw(i % 2);
                match i % 10 {
                    0 => TriggerEvent::NormalSent,
                    1 => TriggerEvent::NormalRecv,
                    2 => TriggerEvent::PaddingSent { machine: id },
                    3 => TriggerEvent::TunnelRecv,
                    4 => TriggerEvent::BlockingBegin { machine: id },
                    5 => TriggerEvent::BlockingEnd,
                    6 => TriggerEvent::TimerBegin { machine: id },
                    7 => TriggerEvent::TimerEnd { machine: id },
                    8 => TriggerEvent::TunnelSent,
                    _ => TriggerEvent::PaddingRecv,
                }
            };
            for seed in 0..3u64 {
                let t0 = std::time::Instant::now();
                let mut fa = Framework::new(std::slice::from_ref(m), 0.5, 0.5, t0, WordRng::new(&[], seed)).map_err(|e| format!("{:?}", e))?;
                let mut fb = Framework::new(std::slice::from_ref(&m2), 0.5, 0.5, t0, WordRng::new(&[], seed)).map_err(|e| format!("{label}: framework from the parsed machine: {:?}", e))?;
                for i in 0..120usize {
                    let e = evs(i * 7 + seed as usize);
                    let t = t0 + std::time::Duration::from_micros(i as u64 * 3);
                    let a: Vec<_> = fa.trigger_events(&[e.clone()], t).map(conv_std).collect();
                    let b: Vec<_> = fb.trigger_events(&[e], t).map(conv_std).collect();
                    if a != b {
                        return Err(format!("{label}: original and parsed machine drive the framework differently at call {i}: {:?} vs {:?}", a, b));
                    }
                }
            }
        }
        Ok(())
    }));
    match r {
        Ok(x) => x,
        Err(_) => Err(format!("{label}: panic during the round trip: {}", crate::explore::last_panic())),
    }
}

// ---------------------------------------------------------------------------
// hostile side: fault enumeration
// ---------------------------------------------------------------------------
const SUBST: [&str; 20] = ["0", "1", "2", "9", "A", "z", "+", "/", "=", " ", "\n", "\0", "é", "€", "🤔", "-", "_", "%", "\t", "a"];
const SHORT: [&str; 12] = ["0", "2", "1", "A", "e", "N", "=", "+", "/", " ", "é", "\n"];

pub fn base_machines() -> Vec<(String, Machine)> {
    let mut v = vec![("noop".to_string(), fam::noop())];
    v.push(("padder".into(), fam::padder(1, 2, 0.5)));
    v.push(("limiter".into(), fam::limiter(2, 1, Some(u(0.0, 2.0)))));
    v.push(("counter".into(), fam::counter_probe(2.0, Operation::Decrement, 1, false, 1)));
    v.push(("signaller".into(), fam::signaller(6)));
    v
}

/// Every single-fault variant of one valid encoding; calls `f` on each.
pub fn single_faults(m: &Machine, quick: bool, f: &mut dyn FnMut(&str, String)) {
    let (bin, comp, s) = encode_layers(m);
    let chars: Vec<char> = s.chars().collect();
    // truncation at every position
    for i in 0..chars.len() {
        f("prefix", chars[..i].iter().collect());
    }
    // substitution and insertion of every alphabet symbol at every position
    let step = if quick && chars.len() > 200 { 3 } else { 1 };
    for i in (0..chars.len()).step_by(step) {
        for sym in SUBST.iter() {
            let mut t: String = chars[..i].iter().collect();
            t.push_str(sym);
            t.extend(chars[i + 1..].iter());
            f("substitution", t);
            let mut t: String = chars[..i].iter().collect();
            t.push_str(sym);
            t.extend(chars[i..].iter());
            f("insertion", t);
        }
    }
    // compressed layer: every single bit flip, every truncation
    for i in 0..comp.len() {
        for b in 0..8 {
            let mut c2 = comp.clone();
            c2[i] ^= 1 << b;
            f("bitflip-compressed", string_of_comp(&c2));
        }
        f("truncate-compressed", string_of_comp(&comp[..i]));
    }
    // bincode layer: every single bit flip, every truncation, one appended byte
    for i in 0..bin.len() {
        for b in 0..8 {
            let mut b2 = bin.clone();
            b2[i] ^= 1 << b;
            f("bitflip-bincode", string_of_bin(&b2));
        }
        f("truncate-bincode", string_of_bin(&bin[..i]));
    }
    for extra in [0u8, 1, 255] {
        let mut b2 = bin.clone();
        b2.push(extra);
        f("append-bincode", string_of_bin(&b2));
    }
    // version prefixes
    for v in 0..100 {
        f("version", format!("{:02}{}", v, &s[2..]));
    }
    for v in ["2", "002", " 2", "0２", "²2", "-2", "+2", "2 "] {
        f("version", format!("{}{}", v, &s[2..]));
    }
}

/// harness-side encoder of the legacy v1 format
pub struct V1State {
    pub duration: (u16, [f64; 4]),
    pub limit: (u16, [f64; 4]),
    pub timeout: (u16, [f64; 4]),
    pub flags: [u8; 4],
    /// 7 events x (num_states + 2) probabilities (+ one unused row)
    pub next: Vec<Vec<f64>>,
}
pub fn v1_payload(header: (u64, f64, u64, f64), num_states_field: u16, states: &[V1State]) -> Vec<u8> {
    let mut b = vec![];
    b.extend(1u16.to_le_bytes());
    b.extend(header.0.to_le_bytes());
    b.extend(header.1.to_le_bytes());
    b.extend(header.2.to_le_bytes());
    b.extend(header.3.to_le_bytes());
    b.push(0);
    b.extend(num_states_field.to_le_bytes());
    for s in states {
        for d in [&s.duration, &s.limit, &s.timeout] {
            b.extend(d.0.to_le_bytes());
            for x in d.1 {
                b.extend(x.to_le_bytes());
            }
        }
        b.extend(s.flags);
        for row in &s.next {
            for x in row {
                b.extend(x.to_le_bytes());
            }
        }
    }
    b
}
pub fn v1_string(payload: &[u8]) -> String {
    hex::encode(compress(payload))
}
fn v1_base_state(n: usize, dist_type: u16, p: [f64; 4]) -> V1State {
    let mut next = vec![vec![0.0; n + 2]; 8];
    next[0][0] = 0.5; // NormalRecv -> state 0
    next[2][n + 1] = 0.25; // NormalSent -> END
    if n > 1 {
        next[3][1] = 1.0;
    }
    V1State { duration: (dist_type, p), limit: (1, [1.0, 3.0, 0.0, 0.0]), timeout: (dist_type, p), flags: [1, 1, 0, 0], next }
}
pub const V1_EXAMPLES: [&str; 3] = [
    "789cedca2101000000c230e85f1a8387009f9e351d051503ca0003",
    "789cd5cfbb0900200c04d08b833886adb889389f5bb9801be811acb58ae2837ce02010c158b070555c9538b6377a64dbb0ceff242c20b79038507dd169fbede9f629bf6f021efa1b66",
    "789ccdd14b4802411807f0d122d630a80e75e920646a9db2d24bd48c9587b012bc04415d32e856eca107d4210f792809a38804e910f400835ca88387d8961e144920b551aed8b59032cc0e59d16c0f41962510dafa0d0cc3cc77f8bef9cbc0b7e0092f06f131832c076f3f21c0e88d464f4c1b51449d3731df6b432feb0fa1f6e20e841f3fc801e5bd5f3d28efa43d8bbc1a1a5f6692e12589b860c84f62f752fbcd3e14605fb549f6bb6de86e0c1a7a028d88f09575d9a7dad2491120ff6279b0a1ca84ecf551ab6b418502adca267a486bc28f5fb20d4a7cb2db0d32fe34c94067ccda6d64afe1dba926585a782e5a2fb5dcdd9496721e42dfd5e35aed5e04865a0a9a13c3ec9ff62707db89d7b391233d1ae7a35458d219ce3049dd40b40827966d52e24a1c4a0be362a05fcde9923b97d0ecf1fa2b9f39c14f181ceeb914c74273f52cb9143e862b7d1554dd565850f7dfbd03f1ca70ff",
];

pub fn v1_inputs(quick: bool, f: &mut dyn FnMut(&str, String)) {
    let corners = super::c12::corners();
    let hdr = (1u64, 0.5, 2u64, 0.5);
    // every header float / distribution parameter set to each corner, for each distribution type
    for x in &corners {
        f("v1-header", v1_string(&v1_payload((1, *x, 2, 0.5), 1, &[v1_base_state(1, 1, [1.0, 2.0, 0.0, 0.0])])));
        f("v1-header", v1_string(&v1_payload((1, 0.5, 2, *x), 1, &[v1_base_state(1, 1, [1.0, 2.0, 0.0, 0.0])])));
        for ty in 0..12u16 {
            for slot in 0..4 {
                let mut p = [1.0, 2.0, 0.0, 0.0];
                p[slot] = *x;
                f("v1-dist", v1_string(&v1_payload(hdr, 1, &[v1_base_state(1, ty, p)])));
            }
        }
        // transition probabilities
        let mut s = v1_base_state(2, 1, [1.0, 2.0, 0.0, 0.0]);
        s.next[0][0] = *x;
        let s2 = v1_base_state(2, 1, [1.0, 2.0, 0.0, 0.0]);
        f("v1-prob", v1_string(&v1_payload(hdr, 2, &[s, s2])));
        let mut s = v1_base_state(1, 1, [1.0, 2.0, 0.0, 0.0]);
        s.next[1][1] = *x; // the unsupported "cancel" pseudo state column
        f("v1-prob", v1_string(&v1_payload(hdr, 1, &[s])));
    }
    // structural: wrong state counts, versions, flags
    for nfield in [0u16, 1, 2, 3, 255, u16::MAX] {
        f("v1-structure", v1_string(&v1_payload(hdr, nfield, &[v1_base_state(1, 1, [1.0, 2.0, 0.0, 0.0])])));
        f("v1-structure", v1_string(&v1_payload(hdr, nfield, &[])));
    }
    for ver in [0u16, 2, 3, 256, u16::MAX] {
        let mut p = v1_payload(hdr, 1, &[v1_base_state(1, 1, [1.0, 2.0, 0.0, 0.0])]);
        p[0..2].copy_from_slice(&ver.to_le_bytes());
        f("v1-structure", v1_string(&p));
    }
    // single faults of valid v1 encodings: hex-level truncation / substitution, payload bit flips and truncations
    let mut bases: Vec<String> = V1_EXAMPLES[..if quick { 2 } else { 3 }].iter().map(|s| s.to_string()).collect();
    bases.push(v1_string(&v1_payload(hdr, 2, &[v1_base_state(2, 1, [1.0, 2.0, 0.0, 0.0]), v1_base_state(2, 6, [1.0, 2.0, 0.0, 5.0])])));
    for (bi, s) in bases.iter().enumerate() {
        let chars: Vec<char> = s.chars().collect();
        let step = if chars.len() > 400 { if quick { 7 } else { 2 } } else { 1 };
        for i in (0..chars.len()).step_by(step) {
            f("v1-prefix", chars[..i].iter().collect());
            for sym in ["0", "f", "g", "é", " "] {
                let mut t: String = chars[..i].iter().collect();
                t.push_str(sym);
                t.extend(chars[i + 1..].iter());
                f("v1-substitution", t);
            }
        }
        if bi == bases.len() - 1 {
            // payload layer of the harness-encoded machine
            let payload = v1_payload(hdr, 2, &[v1_base_state(2, 1, [1.0, 2.0, 0.0, 0.0]), v1_base_state(2, 6, [1.0, 2.0, 0.0, 5.0])]);
            for i in 0..payload.len() {
                for b in 0..8 {
                    let mut p2 = payload.clone();
                    p2[i] ^= 1 << b;
                    f("v1-bitflip-payload", v1_string(&p2));
                }
                f("v1-truncate-payload", v1_string(&payload[..i]));
            }
        }
    }
}

/// all strings of length <= n over the SHORT alphabet
pub fn short_strings(n: usize, f: &mut dyn FnMut(&str, String)) {
    let k = SHORT.len();
    for len in 0..=n {
        for code in 0..k.pow(len as u32) {
            let mut x = code;
            let mut s = String::new();
            for _ in 0..len {
                s.push_str(SHORT[x % k]);
                x /= k;
            }
            f("short", s);
        }
    }
}

/// a valid zlib stream inflating to `size` bytes: optional valid machine prefix, then zeros
pub fn bomb(size: usize, with_prefix: bool) -> String {
    let mut e = ZlibEncoder::new(Vec::new(), Compression::best());
    let mut written = 0usize;
    if with_prefix {
        let (bin, _, _) = encode_layers(&fam::padder(1, 2, 0.5));
        e.write_all(&bin).unwrap();
        written += bin.len();
    }
    let chunk = vec![0u8; 1 << 20];
    while written < size {
        let n = (size - written).min(chunk.len());
        e.write_all(&chunk[..n]).unwrap();
        written += n;
    }
    string_of_comp(&e.finish().unwrap())
}

pub fn worker(ctx: &WorkerCtx) -> WorkerOut {
    let q = ctx.quick();
    let t0 = std::time::Instant::now();
    let mut reported: Vec<Rep> = vec![];
    let mut seen_kinds = std::collections::HashSet::new();
    let mut report = |kind: &str, input_desc: String, input: Option<String>, msg: String, reported: &mut Vec<Rep>| {
        let key = format!("{kind}|{}", first_line(&msg).chars().take(60).collect::<String>());
        if seen_kinds.insert(key.clone()) && reported.len() < 25 {
            reported.push(Rep { signature: format!("C11:{key}"), summary: format!("{kind} [{input_desc}]: {msg}"), replay: json!({"property": "C11", "engine": "E3", "kind": kind, "input": input, "input_description": input_desc, "message": msg}) });
        }
    };
    // ---- valid side ----
    let mut valid = 0u64;
    let mut size_rows = vec![];
    let mut lib: Vec<(String, Machine)> = vec![];
    lib.extend(fam::g1(if q { 23 } else { 1 }));
    lib.extend(fam::g2(if q { 1999 } else { 97 }, 8));
    lib.extend(fam::p_ctr().into_iter().step_by(if q { 9 } else { 1 }));
    lib.extend(fam::p_lim());
    lib.extend(fam::p_sig());
    lib.extend(fam::p_big());
    lib.extend(fam::p_all11());
    lib.push(("all-variants".into(), all_variants_machine()));
    let next = AtomicUsize::new(0);
    let fails: Vec<Vec<(String, String)>> = std::thread::scope(|sc| {
        let hs: Vec<_> = (0..ctx.threads())
            .map(|_| {
                let (next, lib) = (&next, &lib);
                sc.spawn(move || {
                    let mut f = vec![];
                    loop {
                        let i = next.fetch_add(1, Ordering::Relaxed);
                        if i >= lib.len() {
                            break;
                        }
                        if let Err(e) = judge_roundtrip(&lib[i].1, &lib[i].0, true) {
                            f.push((lib[i].0.clone(), e));
                        }
                        if i % 64 == 0 {
                            crate::supervise::beat();
                        }
                    }
                    f
                })
            })
            .collect();
        hs.into_iter().map(|h| h.join().unwrap()).collect()
    });
    valid += lib.len() as u64;
    for (l, e) in fails.into_iter().flatten() {
        report("roundtrip", l, None, e, &mut reported);
    }
    // size classes crossing every internal buffer boundary of the decode path
    let classes: Vec<usize> = if q { vec![1, 2, 10, 100, 300, 500, 700, 1000, 2000, 4000, 8000, 16000, 40000, 65000] } else { vec![1, 2, 10, 100, 200, 300, 400, 500, 600, 700, 800, 1000, 1500, 2000, 3000, 4000, 6000, 8000, 12000, 16000, 24000, 32000, 40000, 50000, 60000, 65000, 65400] };
    let mut jobs: Vec<(usize, u8)> = vec![];
    for n in &classes {
        for kind in [0u8, 1] {
            jobs.push((*n, kind));
        }
    }
    // the largest machines that still fit the documented limit, of each kind (and one state less)
    let seed = ctx.seed;
    let nmax_plain = largest_fitting(&|n| sized_machine(n, false, seed.wrapping_add(n as u64)), 200_000);
    let nmax_rich = largest_fitting(&|n| sized_machine(n, true, seed.wrapping_add(n as u64)), 20_000);
    let nmax_bare = largest_fitting(&|n| bare_machine(n), 200_000);
    let nmax_entropy = largest_fitting(&|n| entropy_machine(n, seed), 20_000);
    for (n, k) in [(nmax_plain, 0u8), (nmax_plain - 1, 0), (nmax_rich, 1), (nmax_rich - 1, 1), (nmax_bare, 2), (nmax_bare / 2, 2), (1000, 2), (nmax_entropy, 3), (nmax_entropy / 2, 3), (100, 3), (0, 4), (1, 4)] {
        jobs.push((n, k));
    }
    let next = AtomicUsize::new(0);
    let rows: Vec<Vec<(usize, u8, u64, usize, Option<String>)>> = std::thread::scope(|sc| {
        let hs: Vec<_> = (0..ctx.threads())
            .map(|_| {
                let (next, jobs) = (&next, &jobs);
                sc.spawn(move || {
                    let mut out = vec![];
                    loop {
                        let i = next.fetch_add(1, Ordering::Relaxed);
                        if i >= jobs.len() {
                            break;
                        }
                        let (n, rich) = jobs[i];
                        let m = match rich {
                            2 => bare_machine(n),
                            3 => entropy_machine(n, ctx.seed),
                            // kind 4: encoding of exactly 1 MiB (n = 0) and exactly 1 MiB - 1 (n = 1)
                            4 => match exact_size_machine((1 << 20) - n as u64) {
                                Some(m) => m,
                                None => {
                                    out.push((n, rich, 0, 0, Some("could not construct a machine of the exact size (machinery)".into())));
                                    continue;
                                }
                            },
                            _ => sized_machine(n, rich == 1, ctx.seed.wrapping_add(n as u64)),
                        };
                        let sz = bincode_size(&m);
                        crate::supervise::beat();
                        if sz > (1 << 20) {
                            out.push((n, rich, sz, 0, None)); // does not fit the documented limit: not part of the claim
                            continue;
                        }
                        let slen = m.serialize().len();
                        let r = judge_roundtrip(&m, &format!("size class {n} states, {}", ["compressible", "incompressible", "bare", "entropy-filled", "exact-size (n = bytes below 1 MiB)"][rich as usize]), n <= 2000 && rich != 4);
                        out.push((n, rich, sz, slen, r.err()));
                    }
                    out
                })
            })
            .collect();
        hs.into_iter().map(|h| h.join().unwrap()).collect()
    });
    let mut rows: Vec<_> = rows.into_iter().flatten().collect();
    rows.sort();
    for (n, rich, sz, slen, err) in rows {
        let kind_name = ["compressible", "incompressible", "bare", "entropy-filled", "exact-size (states field = bytes below 1 MiB)"][rich as usize];
        size_rows.push(json!({"states": n, "kind": kind_name, "bincode_bytes": sz, "string_chars": slen, "fits_1MiB": sz <= (1 << 20)}));
        if sz <= (1 << 20) {
            valid += 1;
        }
        if let Some(e) = err {
            report("roundtrip-size-class", format!("{n} states kind={rich}"), None, e, &mut reported);
        }
    }
    // ---- hostile side ----
    let bases = base_machines();
    let mut hs_total = HostileStats::default();
    let mut kinds: std::collections::BTreeMap<String, u64> = Default::default();
    // collect inputs per base machine in parallel (one thread per base) to keep memory flat
    let per_base: Vec<(HostileStats, std::collections::BTreeMap<String, u64>, Vec<(String, String, String)>)> = std::thread::scope(|sc| {
        let hs: Vec<_> = bases
            .iter()
            .map(|(name, m)| {
                sc.spawn(move || {
                    let mut st = HostileStats::default();
                    let mut kinds: std::collections::BTreeMap<String, u64> = Default::default();
                    let mut fails = vec![];
                    single_faults(m, q, &mut |kind, s| {
                        *kinds.entry(kind.to_string()).or_insert(0) += 1;
                        if let Err(e) = judge_hostile(&s, &mut st) {
                            fails.push((format!("{kind} of {name}"), s, e));
                        }
                        if st.inputs % 4096 == 0 {
                            crate::supervise::beat();
                        }
                    });
                    (st, kinds, fails)
                })
            })
            .collect();
        hs.into_iter().map(|h| h.join().unwrap()).collect()
    });
    let merge = |a: &mut HostileStats, b: &HostileStats| {
        a.inputs += b.inputs;
        a.ok += b.ok;
        a.err += b.err;
        a.max_peak = a.max_peak.max(b.max_peak);
        for (k, v) in &b.classes {
            *a.classes.entry(k.clone()).or_insert(0) += v;
        }
    };
    for (st, k, fails) in per_base {
        merge(&mut hs_total, &st);
        for (a, b) in k {
            *kinds.entry(a).or_insert(0) += b;
        }
        for (kind, s, e) in fails {
            report("hostile", kind, Some(s), e, &mut reported);
        }
    }
    // short strings, v1, bombs, double bit flips (thorough)
    {
        let mut st = HostileStats::default();
        let mut fails = vec![];
        short_strings(if q { 4 } else { 5 }, &mut |kind, s| {
            *kinds.entry(kind.to_string()).or_insert(0) += 1;
            if let Err(e) = judge_hostile(&s, &mut st) {
                fails.push((kind.to_string(), s.clone(), e));
            }
            if let Err(e) = judge_hostile_v1(&s, &mut st) {
                fails.push((format!("v1 {kind}"), s, e));
            }
            if st.inputs % 8192 == 0 {
                crate::supervise::beat();
            }
        });
        // well-formed encodings of machines that must not be accepted: every C12 candidate (numeric corners in every
        // slot, out-of-range and duplicate targets, empty state list), encoded by the harness without validation
        for cnd in super::c12::candidates(q) {
            let Ok(s) = std::panic::catch_unwind(std::panic::AssertUnwindSafe(|| cnd.m.serialize())) else { continue };
            *kinds.entry("encoded-candidate-machine".to_string()).or_insert(0) += 1;
            if let Err(e) = judge_hostile(&s, &mut st) {
                fails.push((format!("encoding of a candidate machine ({})", cnd.label), s, e));
            }
            if st.inputs % 2048 == 0 {
                crate::supervise::beat();
            }
        }
        v1_inputs(q, &mut |kind, s| {
            *kinds.entry(kind.to_string()).or_insert(0) += 1;
            if let Err(e) = judge_hostile_v1(&s, &mut st) {
                fails.push((kind.to_string(), s.clone(), e));
            }
            // a v1 hex string is also just "any other string" for the current parser
            if let Err(e) = judge_hostile(&s, &mut st) {
                fails.push((format!("{kind} through from_str"), s, e));
            }
            if st.inputs % 2048 == 0 {
                crate::supervise::beat();
            }
        });
        if !q {
            // all pairs of bit flips of the no-op machine at both layers
            let (bin, comp, _) = encode_layers(&fam::noop());
            for (layer, bytes) in [("bincode", &bin), ("compressed", &comp)] {
                let nb = bytes.len() * 8;
                for i in 0..nb {
                    for j in (i + 1)..nb {
                        let mut b2 = bytes.clone();
                        b2[i / 8] ^= 1 << (i % 8);
                        b2[j / 8] ^= 1 << (j % 8);
                        let s = if layer == "bincode" { string_of_bin(&b2) } else { string_of_comp(&b2) };
                        *kinds.entry(format!("double-bitflip-{layer}")).or_insert(0) += 1;
                        if let Err(e) = judge_hostile(&s, &mut st) {
                            fails.push((format!("double bit flip ({layer})"), s, e));
                        }
                    }
                    crate::supervise::beat();
                }
            }
        }
        for (size, prefix) in [(2usize << 20, false), (2 << 20, true), (64 << 20, false), (64 << 20, true), (256 << 20, false), (1 << 30, true)] {
            let s = bomb(size, prefix);
            crate::supervise::beat();
            *kinds.entry("bomb".into()).or_insert(0) += 1;
            if let Err(e) = judge_hostile(&s, &mut st) {
                fails.push((format!("zlib bomb inflating to {} MiB, valid machine prefix: {}", size >> 20, prefix), format!("<{} chars>", s.len()), e));
            }
        }
        merge(&mut hs_total, &st);
        for (kind, s, e) in fails {
            report("hostile", kind, Some(s), e, &mut reported);
        }
    }
    let samples = vec![
        json!({"kind": "bitflip-compressed", "input": string_of_comp(&{ let (_, mut c2, _) = encode_layers(&fam::noop()); c2[3] ^= 4; c2 })}),
        json!({"kind": "prefix", "input": fam::noop().serialize()[..10].to_string()}),
        json!({"kind": "size class", "states": 1000, "incompressible": true}),
    ];
    let _ = c(0.0);
    let coverage = json!({
        "evaluations": hs_total.inputs + valid, "distinct_nontrivial": hs_total.classes.len() as u64 + kinds.len() as u64,
        "rule": "valid side: every machine of the listed families and size classes must round-trip (string, name, Debug, framework behaviour). hostile side: every single fault of 5 base encodings (truncation, substitution and insertion of 20 symbols at every position; every bit flip and truncation at the compressed and bincode layers; versions 00-99), all strings of length <= 4 (thorough 5) over 12 symbols, v1 encodings with every header/parameter corner and single faults, zlib bombs up to 1 GiB. distinct_nontrivial = distinct parser outcome classes (error message classes + Ok) plus distinct fault kinds exercised",
        "samples": samples, "exhaustive": ctx.only_unit.is_none(),
        "valid_machines_round_tripped": valid, "size_classes": size_rows,
        "hostile_inputs": hs_total.inputs, "hostile_accepted": hs_total.ok, "hostile_rejected": hs_total.err,
        "inputs_by_fault_kind": kinds.iter().map(|(k, v)| (k.clone(), json!(v))).collect::<serde_json::Map<String, Value>>(),
        "outcome_classes": hs_total.classes.iter().map(|(k, v)| (k.clone(), json!(v))).collect::<serde_json::Map<String, Value>>(),
        "max_heap_peak_bytes_in_from_str": hs_total.max_peak, "heap_bound_constant_bytes": MEM_CONST,
        "wall_s": t0.elapsed().as_secs_f64(),
    });
    let vacuous = if (hs_total.ok < 10 || hs_total.err < 1000) && reported.is_empty() { Some(format!("hostile accepted {} rejected {}", hs_total.ok, hs_total.err)) } else { None };
    WorkerOut { level: "fault_enumeration", coverage, assumptions: vec!["heap measured with a per-thread counting allocator around the call; bound = 256 MiB + 8 x input length, far below the 1 GiB the bombs would inflate to".into(), "all single faults (thorough: all pairs of bit flips for the no-op machine), not all strings".into()], reported, vacuous }
}

pub fn replay(v: &Value) -> Result<Option<String>, String> {
    let Some(s) = v["input"].as_str() else { return Err("no input recorded".into()) };
    let mut st = HostileStats::default();
    let a = judge_hostile(s, &mut st).err().or(judge_hostile_v1(s, &mut st).err());
    let b = judge_hostile(s, &mut st).err().or(judge_hostile_v1(s, &mut st).err());
    if a != b {
        return Err("replay not deterministic".into());
    }
    Ok(a)
}
