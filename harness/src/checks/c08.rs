//! C08 — counters: two saturating u64 registers per machine, updated on
//! entering a state (increment / decrement / set by 1, a sampled value or the
//! other counter's value from before the transition); CounterZero is raised
//! exactly when an update takes a counter of that machine from non-zero to
//! zero (at most once per counter of that machine per call), immediately, and
//! an action scheduled by the CounterZero transition takes precedence.
//!
//! The observer recomputes both counters from the step log (which states were
//! entered) and the machine definition, independently of the implementation's
//! registers, as a set of possibilities when a sampled value is involved.
use super::c07::action_matches_pub as action_matches;
use super::logparse::parse;
use super::*;
use crate::fam;
use crate::types::*;
use maybenot::constants::{STATE_END, STATE_SIGNAL};
use maybenot::counter::{Counter, Operation};
use maybenot::dist::{Dist, DistType};
use maybenot::event::{Event, TriggerEvent};

/// possible values of a counter update distribution (None = unknown)
fn values(d: &Dist) -> Option<Vec<u64>> {
    if d.start != 0.0 || d.max != 0.0 {
        return None;
    }
    match d.dist {
        DistType::Uniform { low, high } if low == high && low >= 0.0 => Some(vec![low.round() as u64]),
        DistType::Uniform { low, high } if low >= 0.0 && high <= 64.0 => Some(((low.round() as u64)..=(high.round() as u64)).collect()),
        _ => None,
    }
}

#[derive(Clone, Debug, PartialEq, Eq, Hash, PartialOrd, Ord)]
struct Poss {
    a: u64,
    b: u64,
    za: bool,
    zb: bool,
}
#[derive(Clone)]
pub struct Obs {
    /// per machine: the (a, b) the property prescribes (collapsed at the end of every call)
    ab: Vec<(u64, u64)>,
}

fn apply(c: &Counter, cur: u64, other_old: u64) -> Option<Vec<u64>> {
    let vals: Vec<u64> = if c.copy {
        vec![other_old]
    } else {
        match &c.dist {
            None => vec![1],
            Some(d) => values(d)?,
        }
    };
    Some(
        vals.into_iter()
            .map(|v| match c.operation {
                Operation::Increment => cur.saturating_add(v),
                Operation::Decrement => cur.saturating_sub(v),
                Operation::Set => v,
            })
            .collect(),
    )
}

impl Observer for Obs {
    fn init(cfg: &Cfg, _s: &[u8], _fw: &Fw) -> Result<Self, String> {
        Ok(Obs { ab: vec![(0, 0); cfg.machines.len()] })
    }
    fn on_call(&mut self, c: &CallCtx<'_>, stats: &mut Stats) -> Result<bool, String> {
        let n = c.cfg.machines.len();
        let resync = |me: &mut Obs| {
            for i in 0..n {
                me.ab[i] = (c.after.machines[i].5, c.after.machines[i].6);
            }
        };
        let dl = match parse(c.batch, n, c.steps) {
            Ok(d) => d,
            Err(_) => {
                stats.bump("calls_with_unparsed_log_skipped");
                resync(self);
                return Ok(false);
            }
        };
        let mut engaged = false;
        let mut poss: Vec<Vec<Poss>> = self.ab.iter().map(|(a, b)| vec![Poss { a: *a, b: *b, za: false, zb: false }]).collect();
        let mut unknown = vec![false; n];
        let steps = c.steps;
        let mut i = 0usize;
        while i < steps.len() {
            let s = &steps[i];
            let mi = s.machine;
            let next_is_cz = i + 1 < steps.len() && steps[i + 1].machine == mi && steps[i + 1].event == Event::CounterZero;
            if s.event == Event::CounterZero && (i == 0 || !was_expected(&steps[i - 1], mi)) {
                // checked below at the raising step; a CounterZero that follows no entering step is spurious
                return Err(format!("machine {mi}: CounterZero raised without a preceding state entry that could zero a counter (step {i})"));
            }
            let regular = s.live && matches!(s.target, Some(t) if t != STATE_END && t != STATE_SIGNAL);
            if !regular {
                if next_is_cz {
                    return Err(format!("machine {mi}: CounterZero raised after a step that entered no state (step {i}: {:?})", s));
                }
                i += 1;
                continue;
            }
            let t = s.target.unwrap();
            let st = &c.cfg.machines[mi].states[t];
            if unknown[mi] {
                i += 1;
                continue;
            }
            let mut must = true; // every possibility raises
            let mut may = false; // some possibility raises
            let mut np: Vec<(Poss, bool)> = vec![];
            for p in &poss[mi] {
                let nas = match &st.counter.0 {
                    Some(cn) => match apply(cn, p.a, p.b) {
                        Some(v) => v,
                        None => {
                            unknown[mi] = true;
                            vec![]
                        }
                    },
                    None => vec![p.a],
                };
                let nbs = match &st.counter.1 {
                    Some(cn) => match apply(cn, p.b, p.a) {
                        Some(v) => v,
                        None => {
                            unknown[mi] = true;
                            vec![]
                        }
                    },
                    None => vec![p.b],
                };
                for na in &nas {
                    for nb in &nbs {
                        let ra = st.counter.0.is_some() && p.a != 0 && *na == 0 && !p.za;
                        let rb = st.counter.1.is_some() && p.b != 0 && *nb == 0 && !p.zb;
                        let raise = ra || rb;
                        must &= raise;
                        may |= raise;
                        np.push((Poss { a: *na, b: *nb, za: p.za || ra, zb: p.zb || rb }, raise));
                    }
                }
            }
            if unknown[mi] {
                i += 1;
                continue;
            }
            if st.counter.0.is_some() || st.counter.1.is_some() {
                stats.bump("counter_updates");
            }
            if must && !np.is_empty() && !next_is_cz {
                return Err(format!(
                    "machine {mi}: entering state {t} takes a counter from non-zero to zero (counters before: {:?}) but no CounterZero was raised immediately",
                    poss[mi].iter().map(|p| (p.a, p.b)).collect::<Vec<_>>()
                ));
            }
            if !may && next_is_cz {
                return Err(format!(
                    "machine {mi}: CounterZero raised after entering state {t} although no counter went from non-zero to zero, or it already raised in this call (counters before: {:?}, after: {:?})",
                    poss[mi].iter().map(|p| (p.a, p.b, p.za, p.zb)).collect::<Vec<_>>(),
                    np.iter().map(|(p, _)| (p.a, p.b)).collect::<Vec<_>>()
                ));
            }
            let mut keep: Vec<Poss> = np.into_iter().filter(|(_, r)| *r == next_is_cz).map(|(p, _)| p).collect();
            keep.sort();
            keep.dedup();
            poss[mi] = keep;
            if next_is_cz {
                engaged = true;
                stats.bump("counter_zero_events");
            }
            i += 1;
        }
        // registers at the end of the call
        for mi in 0..n {
            let got = (c.after.machines[mi].5, c.after.machines[mi].6);
            if unknown[mi] {
                self.ab[mi] = got;
                continue;
            }
            if !poss[mi].iter().any(|p| (p.a, p.b) == got) {
                return Err(format!(
                    "machine {mi}: counters are (A, B) = {:?} but saturating u64 arithmetic over the entered states gives {:?}",
                    got,
                    poss[mi].iter().map(|p| (p.a, p.b)).collect::<Vec<_>>()
                ));
            }
            if got.0 == u64::MAX || got.1 == u64::MAX {
                stats.bump("calls_ending_with_a_saturated_counter");
            }
            self.ab[mi] = got;
        }
        // precedence: with no limits or budgets in the way, the action returned for a machine after its
        // last delivery of the call is that of the innermost state of the chain of entered states that
        // defines one (CounterZero handled immediately; an action scheduled by the CounterZero transition
        // wins over the entered state's, and otherwise the entered state's action is scheduled) -- also
        // when earlier deliveries of the same call left an action pending for the machine.
        for mi in 0..n {
            let mach = &c.cfg.machines[mi];
            let ds: Vec<_> = dl.iter().filter(|d| d.machine == mi).collect();
            let Some(d) = ds.last() else { continue };
            if mach.allowed_padding_packets < 1000 || mach.allowed_blocked_microsec < 1_000_000 {
                continue;
            }
            if ds.iter().any(|d| (d.start..d.end).any(|k| steps[k].event == Event::LimitReached)) {
                continue;
            }
            let chain: Vec<usize> = (d.start..d.end).filter(|k| steps[*k].live).filter_map(|k| steps[k].target).filter(|t| *t != STATE_END && *t != STATE_SIGNAL).collect();
            if chain.len() < 2 {
                continue;
            }
            if chain.iter().any(|t| mach.states[*t].action.map(|a| crate::spec::has_limit(&a)).unwrap_or(false)) {
                continue;
            }
            // the innermost state of the chain that defines an action wins; an action still pending from an
            // earlier delivery of the same call is not "an action scheduled by the CounterZero transition"
            let expect = chain.iter().rev().find_map(|t| mach.states[*t].action);
            let got = c.actions.iter().find(|a| a.machine() == mi);
            match (expect, got) {
                (Some(e), Some(g)) => {
                    if !action_matches(&e, g) {
                        return Err(format!("machine {mi}: after the chain of entered states {chain:?} (CounterZero handled immediately) the returned action must be that of the innermost state defining one ({e:?}), got {g:?}"));
                    }
                    stats.bump(if ds.len() == 1 { "precedence_checks" } else { "precedence_checks_after_earlier_deliveries_in_the_call" });
                }
                (Some(e), None) => return Err(format!("machine {mi}: chain {chain:?} should yield {e:?}, nothing was returned")),
                _ => {}
            }
        }
        Ok(engaged)
    }
    fn key(&self, out: &mut String) {
        out.push_str(&format!("|{:?}", self.ab));
    }
}

/// the step before a CounterZero must be a live step of the same machine that entered a regular state
fn was_expected(prev: &maybenot::VerifStep, mi: usize) -> bool {
    prev.machine == mi && prev.live && matches!(prev.target, Some(t) if t != STATE_END && t != STATE_SIGNAL)
}

fn alphabet(n: usize, pairs: bool) -> Alphabet {
    use TriggerEvent as T;
    let mut ev = vec![T::NormalRecv, T::NormalSent, T::TunnelRecv];
    for id in 0..n.min(2) {
        ev.push(T::PaddingSent { machine: mid(id) });
    }
    let mut b: Vec<Vec<T>> = ev.iter().map(|e| vec![e.clone()]).collect();
    if pairs {
        for x in &ev {
            for y in &ev {
                b.push(vec![x.clone(), y.clone()]);
            }
        }
    }
    Alphabet { batches: b, deltas: vec![0] }
}

pub fn plans(ctx: &WorkerCtx) -> Vec<Plan> {
    let q = ctx.quick();
    let ctr = fam::p_ctr();
    let fr = [(0.0, 0.0)];
    let base = Opts { n32: 2, n64: 3, ..Default::default() };
    let mut v = vec![];
    v.push(Plan { name: "one counter probe (3 ops x 6 value kinds (unit, sampled, copy, constant, copy+dist) x A/B x 5 start values x 4 CounterZero targets), singles and pairs".into(), cfgs: fam::singles(&ctr, &fr), alpha_for: Box::new(|c: &Cfg| alphabet(c.machines.len(), true)), opts: Opts { depth: if q { 4 } else { 6 }, ..base.clone() }, walk: None });
    let sub: Vec<_> = ctr.iter().step_by(if q { 11 } else { 3 }).cloned().collect();
    let sub2: Vec<_> = ctr.iter().skip(1).step_by(if q { 37 } else { 13 }).cloned().collect();
    v.push(Plan { name: "two counter probes zeroing on the same event".into(), cfgs: fam::all_pairs(&sub, &sub2, &fr), alpha_for: Box::new(|c: &Cfg| alphabet(c.machines.len(), false)), opts: Opts { depth: if q { 4 } else { 6 }, ..base.clone() }, walk: None });
    let t: Vec<_> = ctr.iter().step_by(if q { 23 } else { 7 }).cloned().collect();
    v.push(Plan { name: "three counter probes".into(), cfgs: fam::triples_strided(&t, &fr), alpha_for: Box::new(|c: &Cfg| alphabet(c.machines.len(), false)), opts: Opts { depth: if q { 3 } else { 5 }, ..base.clone() }, walk: None });
    let g2: Vec<_> = fam::g2(if q { 1499 } else { 149 }, 9).into_iter().filter(|(_, m)| m.states.iter().any(|s| s.counter.0.is_some() || s.counter.1.is_some())).collect();
    v.push(Plan { name: "G2 machines with counters (saturation at the top, copy, sampled values), pairs".into(), cfgs: fam::pairs_strided(&g2, 31, 7, if q { &[(0.0, 0.0)] } else { &[(0.5, 0.5), (0.0, 0.0)] }), alpha_for: Box::new(|c: &Cfg| super::c05::alphabet(c.machines.len(), vec![0], false)), opts: Opts { depth: if q { 3 } else { 4 }, ..base.clone() }, walk: None });
    v.push(Plan { name: "G2 machines with counters, single, deeper".into(), cfgs: fam::singles(&g2, &[(0.0, 0.0)]), alpha_for: Box::new(|c: &Cfg| super::c05::alphabet(c.machines.len(), vec![0], false)), opts: Opts { depth: if q { 4 } else { 6 }, ..base.clone() }, walk: None });
    let corp = fam::corpus(ctx.seed.wrapping_add(51), if q { 150 } else { 1500 });
    v.push(Plan { name: "corpus of generated 3-6 state machines (sampled), singles and pairs: BFS plus long random walks".into(), cfgs: { let mut c = fam::singles(&corp, &[(0.5, 0.5)]); c.extend(fam::pairs_strided(&corp, 31, 7, &[(0.0, 0.0), (0.5, 0.5)])); c }, alpha_for: Box::new(|c: &Cfg| super::c05::alphabet(c.machines.len(), vec![0], false)), opts: Opts { depth: if q { 1 } else { 2 }, ..base.clone() }, walk: Some((if q { 3 } else { 6 }, 300)) });
    v
}

pub const RULE: &str = "every call (single events, pairs, long batches) on the real Framework from every explored state, every outcome of every sampled counter value; the observer recomputes both registers from the entered states with saturating u64 arithmetic and checks register values, every CounterZero (raised exactly when due, immediately) and action precedence. distinct_nontrivial = distinct product states first reached by a call in which CounterZero was raised";

pub fn worker(ctx: &WorkerCtx) -> WorkerOut {
    let s = run_e1::<Obs>("C08", plans(ctx), ctx, RULE);
    let vacuous = if s.nontrivial_states < 200 && ctx.only_unit.is_none() && s.reported.is_empty() { Some(format!("only {} non-trivial states", s.nontrivial_states)) } else { None };
    WorkerOut {
        level: "model_checking",
        coverage: s.coverage,
        assumptions: vec!["counter values from constants {0,1,2,5, 1.8e19, 2^64}, Uniform[0,2] and copy; the hook step log reports internal events, the snapshot the registers".into()],
        reported: s.reported,
        vacuous,
    }
}
pub fn replay(v: &Value) -> Result<Option<String>, String> {
    replay_e1::<Obs>(v, false)
}
