//! C01 — the framework is total: construction from validated machines
//! succeeds, every call returns (no panic with overflow checks on, no abort,
//! no hang: draw cap + watchdog), and the internal work of one call is bounded
//! by a small constant times (events + 1) x (machines + 1) machine steps.
use super::*;
use crate::fam;
use crate::types::*;

#[derive(Clone)]
pub struct Obs;

impl Observer for Obs {
    fn init(_cfg: &Cfg, _s: &[u8], _fw: &Fw) -> Result<Self, String> {
        Ok(Obs)
    }
    fn on_call(&mut self, c: &CallCtx<'_>, stats: &mut Stats) -> Result<bool, String> {
        let n = c.cfg.machines.len() as u64;
        let e = c.batch.len() as u64;
        let bound = 4 * (e + 1) * (n + 1);
        let steps = c.steps.len() as u64;
        if steps > bound {
            return Err(format!("one call performed {steps} machine steps for {e} events and {n} machines, above the bound 4*(events+1)*(machines+1) = {bound}"));
        }
        stats.max("max_steps_in_one_call", steps);
        if n > 0 && e > 0 {
            stats.max("max_steps_per_event_machine_x100", steps * 100 / (e * n));
        }
        let foreign = c.batch.iter().any(|ev| match ev {
            maybenot::event::TriggerEvent::PaddingSent { machine } | maybenot::event::TriggerEvent::BlockingBegin { machine } | maybenot::event::TriggerEvent::TimerBegin { machine } | maybenot::event::TriggerEvent::TimerEnd { machine } => machine.into_raw() as u64 >= n,
            _ => false,
        });
        if foreign {
            stats.bump("calls_with_foreign_machine_ids");
        }
        if c.now < c.prev_now {
            stats.bump("calls_with_clock_going_backwards");
        }
        if c.now == c.prev_now {
            stats.bump("calls_with_clock_standing_still");
        }
        Ok(steps > e * n)
    }
    fn key(&self, _out: &mut String) {}
}

fn af(pairs: bool, deltas: Vec<i64>) -> Box<dyn Fn(&Cfg) -> Alphabet + Sync> {
    Box::new(move |c: &Cfg| {
        let mut a = super::c05::alphabet(c.machines.len(), deltas.clone(), pairs);
        // a long catch-up batch: every single event twice
        let all = all_single_events(c.machines.len(), true);
        let mut long = all.clone();
        long.extend(all);
        a.batches.push(long);
        a
    })
}

pub fn plans(ctx: &WorkerCtx) -> Vec<Plan> {
    let q = ctx.quick();
    let fr4 = [(0.0, 0.0), (1.0, 1.0), (0.5, 0.25), (0.25, 0.5)];
    let base = Opts { n32: 2, n64: 3, panic_is_violation: true, ..Default::default() };
    let t4: Vec<i64> = vec![0, 1, 1000, -2];
    let t2: Vec<i64> = vec![0, -2];
    let g1 = fam::g1(if q { 131 } else { 2 });
    let g2 = fam::g2(if q { 11999 } else { 299 }, 2);
    let ctr: Vec<_> = fam::p_ctr().into_iter().filter(|(n, _)| n.contains("load3") || n.contains("load4")).step_by(if q { 3 } else { 1 }).collect();
    let mut v = vec![];
    v.push(Plan { name: "no machines".into(), cfgs: vec![Cfg::new("[] fw(1,1)", vec![], 1.0, 1.0), Cfg::new("[] fw(0,0)", vec![], 0.0, 0.0)], alpha_for: af(true, t4.clone()), opts: Opts { depth: 2, ..base.clone() }, walk: None });
    let mut lib = vec![];
    lib.extend(g1.iter().cloned());
    lib.extend(g2.iter().cloned());
    lib.extend(ctr.iter().cloned());
    lib.extend(fam::p_lim().into_iter().step_by(2));
    lib.extend(fam::p_sig());
    v.push(Plan { name: "one machine: G1+G2+saturation counters+limits+signals, 4 time steps".into(), cfgs: fam::singles(&lib, &fr4[..2]).into_iter().enumerate().filter(|(i, _)| !q || i % 2 == (i / 2) % 2).map(|x| x.1).collect(), alpha_for: af(false, if q { t2.clone() } else { t4.clone() }), opts: Opts { depth: if q { 3 } else { 5 }, ..base.clone() }, walk: None });
    v.push(Plan { name: "two machines, strided pairs".into(), cfgs: fam::pairs_strided(&lib, 31, 7, &fr4).into_iter().step_by(if q { 3 } else { 1 }).collect(), alpha_for: af(false, t2.clone()), opts: Opts { depth: if q { 2 } else { 4 }, ..base.clone() }, walk: None });
    v.push(Plan { name: "two machines, all ordered pairs of events".into(), cfgs: fam::pairs_strided(&lib, 13, 5, &fr4).into_iter().step_by(if q { 4 } else { 1 }).collect(), alpha_for: af(true, vec![0]), opts: Opts { depth: if q { 1 } else { 2 }, ..base.clone() }, walk: None });
    v.push(Plan { name: "three machines, strided triples".into(), cfgs: fam::triples_strided(&lib.iter().step_by(if q { 9 } else { 2 }).cloned().collect::<Vec<_>>(), &fr4), alpha_for: af(false, t2.clone()), opts: Opts { depth: if q { 2 } else { 3 }, full_positions: 4, ..base.clone() }, walk: None });
    let corp = fam::corpus(ctx.seed.wrapping_add(17), if q { 150 } else { 1500 });
    v.push(Plan { name: "corpus of generated 3-6 state machines (sampled), pairs: BFS plus long random walks with backwards and huge clock steps".into(), cfgs: fam::pairs_strided(&corp, 31, 7, &fr4), alpha_for: af(false, vec![0, 1, -2, 1 << 40]), opts: Opts { depth: if q { 1 } else { 2 }, ..base.clone() }, walk: Some((if q { 3 } else { 6 }, 300)) });
    // adversarial literals (the candidate set of C12): whatever the current validation accepts must also run
    {
        let accepted: Vec<(String, maybenot::Machine)> = super::c12::candidates(true)
            .into_iter()
            .filter(|c| std::panic::catch_unwind(std::panic::AssertUnwindSafe(|| c.m.validate().is_ok())).unwrap_or(false))
            .filter(|c| !fam::uses_binomial(std::slice::from_ref(&c.m)))
            .map(|c| (format!("literal[{}]", c.label), c.m))
            .collect();
        let sub: Vec<_> = accepted.into_iter().step_by(if q { 7 } else { 1 }).collect();
        v.push(Plan { name: "machine literals with adversarial numbers / targets that the current validation accepts".into(), cfgs: fam::singles(&sub, &fr4[..1]), alpha_for: af(false, vec![0, 1]), opts: Opts { depth: 2, n32: 2, n64: 4, full_positions: 3, max_deviations: 1, ..base.clone() }, walk: None });
    }
    // distributions whose start / max relate badly (start > max > 0, NaN, infinities): validation does not relate them
    {
        use maybenot::dist::{Dist, DistType};
        let mut lib = vec![];
        for (si, (st, mx)) in super::c13::start_max().into_iter().enumerate() {
            for (di, d) in [DistType::Uniform { low: 1.0, high: 4.0 }, DistType::Normal { mean: 2.0, stdev: 1.0 }, DistType::Pareto { scale: 1.0, shape: 2.0 }, DistType::Geometric { probability: 0.5 }].into_iter().enumerate() {
                for pos in 0..4 {
                    lib.push((format!("startmax[{si},d{di},pos{pos}]"), fam::all11_machine(pos, Dist { dist: d, start: st, max: mx })));
                }
            }
        }
        v.push(Plan { name: "P-STARTMAX: start/max corner pairs (start > max, NaN, infinite) in every position".into(), cfgs: fam::singles(&lib, &fr4[..1]), alpha_for: af(false, vec![0]), opts: Opts { depth: 2, n32: 2, n64: 4, full_positions: 3, max_deviations: 1, ..base.clone() }, walk: None });
    }
    // all 11 distribution families in every position; central RNG words only where a Binomial is present
    let a11 = fam::p_all11();
    let (bin, nobin): (Vec<_>, Vec<_>) = a11.into_iter().partition(|(n, _)| n.contains("binomial"));
    v.push(Plan { name: "P-ALL11 without Binomial: 10 distribution families x 4 positions, 4-word menus".into(), cfgs: fam::singles(&nobin, &fr4[..1]), alpha_for: af(false, vec![0, 1]), opts: Opts { depth: if q { 2 } else { 3 }, n32: 2, n64: 4, full_positions: 3, max_deviations: 1, ..base.clone() }, walk: None });
    v.push(Plan { name: "P-ALL11 Binomial: central u64 words only (the sampler defect under extreme words is C13's finding)".into(), cfgs: fam::singles(&bin, &fr4[..1]), alpha_for: af(false, vec![0, 1]), opts: Opts { depth: if q { 2 } else { 3 }, n32: 2, m64_words: Some(vec![0xAAAA_AAAA_AAAA_AAAA, 0x5555_5555_5555_5555]), full_positions: 3, max_deviations: 1, ..base.clone() }, walk: None });
    v.push(Plan { name: "P-BIG: extreme values reaching the clamps and casts".into(), cfgs: fam::singles(&fam::p_big(), &fr4[..1]), alpha_for: af(false, vec![0, 1 << 40]), opts: Opts { depth: if q { 2 } else { 3 }, n32: 2, n64: 4, full_positions: 4, max_deviations: 1, ..base.clone() }, walk: None });
    v
}

pub const RULE: &str = "every call on the real Framework (overflow checks on) from every explored state: all single events with own, foreign and usize::MAX machine ids, empty and long batches, time steps incl. 0, backwards and 2^40 us, every RNG script; a panic, abort, hang or a step count above 4*(events+1)*(machines+1) is a violation. distinct_nontrivial = distinct states first reached by a call in which some machine performed an internal step (LimitReached / CounterZero / Signal) beyond one step per event and machine";

/// Extreme `std::time::Instant` values (the explorer's virtual clock stays far from any overflow): instants
/// 2^k seconds apart with the clock stepping backwards between BlockingBegin / BlockingEnd rounds.
/// Returns (calls executed, failures as (signature, message, scenario)).
pub fn extreme_instants() -> (u64, Vec<(String, String, Value)>) {
    use maybenot::event::TriggerEvent as T;
    use std::time::{Duration, Instant};
    let mut calls = 0u64;
    let mut fails = vec![];
    let machines = vec![fam::blocker(0, false, 0, 0.5), fam::blocker(1, true, 1000, 0.25), fam::noop()];
    for exp in [20u32, 40, 55, 61, 62] {
        for rounds in [1usize, 2, 3, 4, 6] {
            for with_machine in [0usize, 1, 2] {
                let t0 = Instant::now();
                let Some(t1) = t0.checked_add(Duration::from_secs(1u64 << exp)) else { continue };
                let ms = vec![machines[with_machine].clone()];
                let r = std::panic::catch_unwind(std::panic::AssertUnwindSafe(|| {
                    let mut f = maybenot::Framework::new(ms, 0.5, 0.5, t0, crate::rng::WordRng::new(&[], 3)).expect("framework");
                    let mut n = 0u64;
                    for _ in 0..rounds {
                        for (e, t) in [(T::BlockingBegin { machine: mid(0) }, t0), (T::NormalRecv, t1), (T::BlockingEnd, t1), (T::NormalRecv, t0)] {
                            let _ = f.trigger_events(&[e], t).count();
                            n += 1;
                        }
                    }
                    n
                }));
                match r {
                    Ok(n) => calls += n,
                    Err(_) => {
                        let msg = crate::explore::last_panic();
                        let sig = if msg.contains("overflow when adding durations") { "C01:extreme-instants:blocked-time-accumulation-overflow".to_string() } else { format!("C01:extreme-instants:{}", first_line(&msg).chars().take(60).collect::<String>()) };
                        fails.push((sig, format!("{rounds} rounds of BlockingBegin at t0 / BlockingEnd at t0 + 2^{exp} s with the clock stepping back in between: {}", first_line(&msg)), json!({"property": "C01", "engine": "E1-extreme-instants", "span_seconds_log2": exp, "rounds": rounds, "machine": with_machine, "message": msg})));
                    }
                }
            }
        }
    }
    (calls, fails)
}

/// Helper process for `binomial_seeded_streams`: one case per input line, "<trials> <probability bits, hex> <seed> <calls>".
/// A one-state machine pads with a Binomial timeout on NormalSent; the framework's random source is rand's
/// StdRng seeded with <seed> (an ordinary seeded pseudo-random stream, not an explorer script).
pub fn binomial_helper_main() -> i32 {
    use maybenot::action::Action;
    use maybenot::dist::{Dist, DistType};
    use maybenot::event::{Event, TriggerEvent as T};
    use rand::SeedableRng;
    use std::io::{BufRead, Write};
    crate::explore::install_quiet_panic_hook();
    let stdin = std::io::stdin();
    let mut out = std::io::stdout();
    for line in stdin.lock().lines() {
        let Ok(line) = line else { break };
        let f: Vec<&str> = line.split_whitespace().collect();
        if f.len() != 4 {
            continue;
        }
        let (Ok(trials), Ok(pb), Ok(seed), Ok(calls)) = (f[0].parse::<u64>(), u64::from_str_radix(f[1], 16), f[2].parse::<u64>(), f[3].parse::<u64>()) else { continue };
        let d = Dist { dist: DistType::Binomial { trials, probability: f64::from_bits(pb) }, start: 0.0, max: 0.0 };
        let m = fam::mk((u64::MAX, 0.0, 0, 0.0), vec![fam::st(&[(Event::NormalSent, &[(0, 1.0)])], Some(Action::SendPadding { bypass: false, replace: false, timeout: d, limit: None }), (None, None))]);
        let r = std::panic::catch_unwind(std::panic::AssertUnwindSafe(|| {
            let t = std::time::Instant::now();
            let mut fw = maybenot::Framework::new(vec![m], 0.0, 0.0, t, rand::rngs::StdRng::seed_from_u64(seed)).map_err(|e| format!("{:?}", e))?;
            let mut n = 0usize;
            for _ in 0..calls {
                n += fw.trigger_events(&[T::NormalSent], t).count();
            }
            Ok::<usize, String>(n)
        }));
        let _ = match r {
            Ok(Ok(n)) => writeln!(out, "ok {n}"),
            Ok(Err(e)) => writeln!(out, "rejected {e}"),
            Err(_) => writeln!(out, "panic {}", crate::explore::last_panic().replace('\n', " ")),
        };
        let _ = out.flush();
    }
    0
}

/// A validated Binomial timeout under ordinary seeded streams, each case in a helper process with a watchdog (the
/// sampler's inversion loop does not draw, so it cannot be interrupted in-process). Cases: the documented extremes
/// of the family (trials 1e9 with probabilities of a few 1e-9) under the seeds listed. Returns (cases, failures).
pub fn binomial_seeded_streams() -> (u64, Vec<(String, String, Value)>) {
    use std::io::{BufRead, BufReader, Write};
    use std::process::{Command, Stdio};
    use std::sync::mpsc;
    let cases: Vec<(u64, f64, u64, u64)> = vec![
        (1_000_000_000, 6e-9, 11_621_206, 1),
        (1_000_000_000, 9e-9, 11_621_206, 1),
        (1_000_000_000, 6e-9, 1, 1000),
        (1_000_000_000, 2e-9, 2, 1000),
        (1_000_000_000, 1e-9, 3, 1000),
        (1_000_000, 6e-6, 11_621_206, 1000),
        (10, 0.5, 11_621_206, 1000),
    ];
    let mut fails = vec![];
    let mut n = 0u64;
    let run = |c: &(u64, f64, u64, u64)| -> String {
        let exe = std::env::current_exe().expect("exe");
        let mut child = Command::new(exe).arg("--c01-binomial-helper").stdin(Stdio::piped()).stdout(Stdio::piped()).stderr(Stdio::null()).spawn().expect("spawn helper");
        let mut stdin = child.stdin.take().unwrap();
        let stdout = child.stdout.take().unwrap();
        let (tx, rx) = mpsc::channel();
        std::thread::spawn(move || {
            let mut l = String::new();
            let _ = BufReader::new(stdout).read_line(&mut l);
            let _ = tx.send(l);
        });
        let _ = writeln!(stdin, "{} {:x} {} {}", c.0, c.1.to_bits(), c.2, c.3);
        let _ = stdin.flush();
        let r = match rx.recv_timeout(std::time::Duration::from_secs(8)) {
            Ok(l) if !l.trim().is_empty() => l.trim().to_string(),
            _ => "hang".to_string(),
        };
        let _ = child.kill();
        let _ = child.wait();
        r
    };
    for c in &cases {
        n += 1;
        crate::supervise::beat();
        let r = run(c);
        if r.starts_with("ok") {
            continue;
        }
        // confirm before reporting
        let r2 = run(c);
        crate::supervise::beat();
        if r2.starts_with("ok") {
            continue;
        }
        let what = if r == "hang" { "never returns (8 s watchdog, twice)".to_string() } else { r.clone() };
        let sig = if r == "hang" && r2 == "hang" { "C01:Binomial:trigger_events-never-returns-under-a-seeded-stream".to_string() } else { format!("C01:Binomial:{}", first_line(&r).chars().take(60).collect::<String>()) };
        fails.push((sig, format!("one machine padding with timeout Binomial{{trials: {}, probability: {:e}}} (accepted by validation), random source StdRng::seed_from_u64({}), {} call(s) of trigger_events([NormalSent]): {what}", c.0, c.1, c.2, c.3), json!({"property": "C01", "engine": "E1-binomial-seeded", "trials": c.0, "probability": c.1, "seed": c.2, "calls": c.3, "message": what})));
    }
    (n, fails)
}

pub fn worker(ctx: &WorkerCtx) -> WorkerOut {
    let mut s = run_e1::<Obs>("C01", plans(ctx), ctx, RULE);
    if ctx.only_unit.is_none() {
        let (n, fails) = extreme_instants();
        s.coverage["extreme_std_instant_calls"] = json!(n);
        let (nb, bfails) = binomial_seeded_streams();
        s.coverage["binomial_cases_under_seeded_streams"] = json!(nb);
        let mut seen = std::collections::HashSet::new();
        for (sig, msg, replay) in fails.into_iter().chain(bfails) {
            if seen.insert(sig.clone()) {
                s.reported.push(Rep { signature: sig, summary: msg, replay });
            }
        }
    }
    let vacuous = if s.nontrivial_states < 1000 && ctx.only_unit.is_none() && s.reported.is_empty() { Some(format!("only {} non-trivial states", s.nontrivial_states)) } else { None };
    WorkerOut {
        level: "model_checking",
        coverage: s.coverage,
        assumptions: vec!["distribution samplers under extreme RNG words are C13's subject (Binomial configurations use central words only)".into(), "bounded: machine families, depth, menus as listed".into()],
        reported: s.reported,
        vacuous,
    }
}
pub fn replay(v: &Value) -> Result<Option<String>, String> {
    replay_e1::<Obs>(v, true)
}
