//! C05 — actions are a deterministic function of the inputs, matching the
//! documented operational semantics (DESIGN 3, C05): lock-step equality of the
//! real framework with the reference semantics on every explored transition.
use super::*;
use crate::clock::VT;
use crate::fam;
use crate::rng::{self, ChoiceRng};
use crate::spec::Spec;
use crate::types::*;
use maybenot::VerifSnapshot;

#[derive(Clone)]
pub struct Obs {
    pub spec: Spec,
}

pub fn compare_snapshot(spec: &Spec, s: &VerifSnapshot<VT>) -> Result<(), String> {
    if s.machines.len() != spec.rt.len() {
        return Err("snapshot has a different number of machines".into());
    }
    for (i, (m, r)) in s.machines.iter().zip(spec.rt.iter()).enumerate() {
        let got = (m.0, m.1, m.2, m.3, m.4 .0, m.5, m.6);
        let exp = (r.cur, r.limit, r.pad, r.norm, r.blocked, r.a, r.b);
        if got != exp {
            return Err(format!(
                "machine {i} runtime (state, limit, paddings, normals, blocked_us, counter_a, counter_b): implementation {:?}, reference semantics {:?}",
                got, exp
            ));
        }
    }
    let got = (s.normal_sent_packets, s.padding_sent_packets, s.blocking_duration.0, s.blocking_active);
    let exp = (spec.norm, spec.pad, spec.blocked, spec.active);
    if got != exp {
        return Err(format!("global accounting (normals, paddings, blocked_us, blocking_active): implementation {:?}, reference semantics {:?}", got, exp));
    }
    if s.blocking_active && s.blocking_started.0 != spec.since {
        return Err(format!("blocking_started: implementation {}, reference semantics {}", s.blocking_started.0, spec.since));
    }
    if s.signal_pending.is_some() {
        return Err(format!("a signal is still pending when the call returns ({:?}): it would be delivered in a later call, but signals are delivered in one round at the end of the call", s.signal_pending));
    }
    Ok(())
}

impl Observer for Obs {
    fn init(cfg: &Cfg, init_script: &[u8], fw: &Fw) -> Result<Self, String> {
        rng::set_script(init_script);
        let spec = Spec::new(&cfg.machines, cfg.pad_frac, cfg.blk_frac, cfg.start, &mut ChoiceRng);
        compare_snapshot(&spec, &fw.verif_snapshot()).map_err(|e| format!("after Framework::new: {e}"))?;
        Ok(Obs { spec })
    }
    fn on_call(&mut self, c: &CallCtx<'_>, stats: &mut Stats) -> Result<bool, String> {
        rng::set_script(c.script);
        let exp = self.spec.trigger(&c.cfg.machines, c.batch, c.now, &mut ChoiceRng);
        let nd = rng::draws();
        if exp != c.actions {
            return Err(format!("returned actions differ from the documented semantics: implementation {:?}, reference semantics {:?}", c.actions, exp));
        }
        // internal step sequence (events in order, machines in index order, internal events immediate, one signal round)
        let n = c.steps.len().min(self.spec.log.len());
        for i in 0..n {
            let (a, b) = (&c.steps[i], &self.spec.log[i]);
            if a.machine != b.machine || a.event != b.event || a.from_state != b.from_state || a.target != b.target {
                return Err(format!("internal step {i} differs: implementation {:?}, reference semantics {:?}", a, b));
            }
        }
        if c.steps.len() != self.spec.log.len() {
            return Err(format!(
                "number of internal machine steps differs: implementation {} ({:?}), reference semantics {} ({:?})",
                c.steps.len(),
                c.steps.iter().map(|s| (s.machine, s.event)).collect::<Vec<_>>(),
                self.spec.log.len(),
                self.spec.log.iter().map(|s| (s.machine, s.event)).collect::<Vec<_>>()
            ));
        }
        if nd != c.draws {
            return Err(format!("number of random draws differs: implementation {}, reference semantics {}", c.draws, nd));
        }
        compare_snapshot(&self.spec, c.after)?;
        let engaged = !c.actions.is_empty() || c.steps.iter().any(|s| s.target.is_some());
        if !c.actions.is_empty() {
            stats.bump("calls_returning_actions");
        }
        if c.steps.iter().any(|s| matches!(s.event, maybenot::event::Event::LimitReached | maybenot::event::Event::CounterZero | maybenot::event::Event::Signal)) {
            stats.bump("calls_with_internal_events");
        }
        Ok(engaged)
    }
    fn key(&self, out: &mut String) {
        out.push_str(&self.spec.key_string());
    }
}

pub fn alphabet(n: usize, deltas: Vec<i64>, pairs: bool) -> Alphabet {
    let singles = all_single_events(n, true);
    let mut batches: Vec<Vec<_>> = vec![vec![]];
    batches.extend(singles.iter().map(|e| vec![e.clone()]));
    if pairs {
        for a in &singles {
            for b in &singles {
                batches.push(vec![a.clone(), b.clone()]);
            }
        }
    }
    // long batches pushing against the one-action-per-machine slot
    use maybenot::event::TriggerEvent as T;
    batches.push(vec![T::NormalSent, T::PaddingSent { machine: mid(0) }]);
    batches.push(vec![T::PaddingSent { machine: mid(0) }, T::NormalSent, T::NormalRecv]);
    let mut long = vec![T::NormalRecv, T::NormalSent, T::TunnelRecv];
    for i in 0..n {
        long.push(T::PaddingSent { machine: mid(i) });
        long.push(T::BlockingBegin { machine: mid(i) });
    }
    long.push(T::BlockingEnd);
    batches.push(long);
    Alphabet { batches, deltas }
}

fn alpha_for(pairs: bool, timed: Vec<i64>) -> Box<dyn Fn(&Cfg) -> Alphabet + Sync> {
    Box::new(move |c: &Cfg| {
        let deltas = if fam::uses_blocking(&c.machines) { timed.clone() } else { vec![0] };
        alphabet(c.machines.len(), deltas, pairs)
    })
}

pub fn plans(ctx: &WorkerCtx) -> Vec<Plan> {
    let q = ctx.quick();
    let fr = [(0.0, 0.0), (0.5, 0.5)];
    let fr4 = [(0.0, 0.0), (0.5, 0.5), (1.0, 0.25), (0.25, 1.0)];
    let timed: Vec<i64> = if q { vec![0, 2, -1] } else { vec![0, 1, 2, 1000, -2] };
    let g1 = fam::g1(if q { 53 } else { 3 });
    let g2 = fam::g2(if q { 3989 } else { 397 }, 0);
    let mut probes = vec![];
    probes.extend(fam::p_pad());
    probes.extend(fam::p_blk());
    probes.extend(fam::p_lim());
    probes.extend(fam::p_sig());
    let ctr = fam::p_ctr();
    probes.extend(ctr.iter().step_by(if q { 7 } else { 1 }).cloned());
    probes.extend(fam::p_big());
    {
        // start / max corner pairs (start > max > 0, NaN, infinities) in every position
        use maybenot::dist::{Dist, DistType};
        for (si, (st, mx)) in super::c13::start_max().into_iter().enumerate() {
            for pos in 0..4 {
                probes.push((format!("startmax[{si},pos{pos}]"), fam::all11_machine(pos, Dist { dist: DistType::Uniform { low: 1.0, high: 4.0 }, start: st, max: mx })));
            }
        }
    }
    let base = Opts { n32: 2, n64: 3, check_clone: true, fresh_every: 64, panic_is_violation: true, ..Default::default() };
    let mut v = vec![];
    let mut lib1 = vec![];
    lib1.extend(g1.iter().cloned());
    lib1.extend(g2.iter().cloned());
    lib1.extend(probes.iter().cloned());
    let one: Vec<Cfg> = if q { fam::singles(&lib1, &fr).into_iter().enumerate().filter(|(i, _)| i % 2 == (i / 2) % 2).map(|x| x.1).collect() } else { fam::singles(&lib1, &fr) };
    v.push(Plan { name: "one machine: G1+G2+probes, singles+eps+long batches".into(), cfgs: one, alpha_for: alpha_for(false, if q { vec![0, 2] } else { timed.clone() }), opts: Opts { depth: if q { 3 } else { 5 }, ..base.clone() }, walk: Some((1, 120)) });
    let mut lib2 = vec![];
    lib2.extend(g2.iter().cloned());
    lib2.extend(probes.iter().cloned());
    lib2.extend(g1.iter().step_by(5).cloned());
    let mut pairs = fam::pairs_strided(&lib2, 31, 7, &fr4);
    pairs.extend(fam::all_pairs(&fam::p_sig(), &fam::p_sig(), &[(0.0, 0.0)]));
    v.push(Plan { name: "two machines: strided pairs of G2+probes+G1/5, all signaller pairs".into(), cfgs: pairs.clone(), alpha_for: alpha_for(false, timed.clone()), opts: Opts { depth: if q { 2 } else { 4 }, ..base.clone() }, walk: Some((1, 120)) });
    if q {
        let sub: Vec<Cfg> = pairs.iter().filter(|c| !fam::uses_blocking(&c.machines)).step_by(3).cloned().collect();
        v.push(Plan { name: "two machines: every 3rd pair without blocking actions (clock irrelevant), one level deeper".into(), cfgs: sub, alpha_for: alpha_for(false, vec![0]), opts: Opts { depth: 3, ..base.clone() }, walk: None });
    }
    let small: Vec<_> = lib2.iter().step_by(if q { 3 } else { 1 }).cloned().collect();
    v.push(Plan { name: "two machines, all ordered pairs of events as batches".into(), cfgs: fam::pairs_strided(&small, 17, 3, &fr), alpha_for: alpha_for(true, vec![0]), opts: Opts { depth: if q { 1 } else { 2 }, ..base.clone() }, walk: None });
    let t: Vec<_> = lib2.iter().step_by(if q { 5 } else { 2 }).cloned().collect();
    v.push(Plan { name: "three machines: strided triples".into(), cfgs: fam::triples_strided(&t, &fr), alpha_for: alpha_for(false, vec![0, 3]), opts: Opts { depth: if q { 2 } else { 3 }, full_positions: 4, ..base.clone() }, walk: None });
    // generated larger machines (3-6 states): the corpus is a sample, histories and draws over it are enumerated
    let corp = fam::corpus(ctx.seed, if q { 150 } else { 1500 });
    v.push(Plan { name: "corpus of generated 3-6 state machines (corpus sampled from VERIF_SEED): BFS plus long random walks".into(), cfgs: fam::singles(&corp, &fr[1..]), alpha_for: alpha_for(false, vec![0, 2]), opts: Opts { depth: if q { 2 } else { 3 }, ..base.clone() }, walk: Some((if q { 2 } else { 4 }, 200)) });
    v.push(Plan { name: "corpus pairs: BFS plus long random walks".into(), cfgs: fam::pairs_strided(&corp, 31, 7, &fr4), alpha_for: alpha_for(false, vec![0, 2]), opts: Opts { depth: if q { 1 } else { 2 }, ..base.clone() }, walk: Some((if q { 2 } else { 4 }, 200)) });
    if !q {
        // 8-word u32 menu (quarter thresholds) on the probabilistic sub-family
        let prob: Vec<_> = g2.iter().step_by(3).cloned().collect();
        v.push(Plan { name: "two machines, 8-word u32 menu (quarter thresholds)".into(), cfgs: fam::pairs_strided(&prob, 31, 7, &fr), alpha_for: alpha_for(false, vec![0, 3]), opts: Opts { depth: 3, n32: 8, n64: 4, ..base.clone() }, walk: None });
    }
    v
}


// ---------------------------------------------------------------------------
// Isolation sub-check ("nothing but those inputs - no wall clock, no global state")
// ---------------------------------------------------------------------------
/// Two unrelated configurations with different start times are advanced alternately in one thread,
/// each in lock-step with its own model. State kept outside the instance (a `static`, a thread-local,
/// a cache filled by the first instance) makes one instance's history leak into the other and shows
/// up deterministically as a mismatch. Returns (calls executed, failure).
pub fn isolation_run(a: &Cfg, b: &Cfg, o: &Opts) -> (u64, Option<String>) {
    use maybenot::event::TriggerEvent as T;
    apply_menu(o);
    let mut calls = 0u64;
    let mk = |c: &Cfg| -> Result<(Fw, Obs), String> {
        let ms = Ms(std::sync::Arc::new(c.machines.clone()));
        let f = new_fw(c, &ms, &[])?;
        let obs = Obs::init(c, &[], &f)?;
        Ok((f, obs))
    };
    let (mut fa, mut oa) = match mk(a) {
        Ok(x) => x,
        Err(e) => return (0, Some(format!("first instance: {e}"))),
    };
    let (mut fb, mut ob) = match mk(b) {
        Ok(x) => x,
        Err(e) => return (0, Some(format!("second instance: {e}"))),
    };
    let script = |n: usize| -> Vec<Vec<T>> {
        let mut v: Vec<Vec<T>> = vec![vec![T::NormalSent], vec![T::NormalRecv], vec![T::BlockingBegin { machine: mid(0) }], vec![T::PaddingSent { machine: mid(0) }], vec![T::TunnelRecv], vec![T::BlockingEnd]];
        if n > 1 {
            v.push(vec![T::PaddingSent { machine: mid(1) }, T::NormalSent]);
            v.push(vec![T::TimerBegin { machine: mid(1) }]);
        }
        v.push(vec![T::TimerBegin { machine: mid(0) }, T::NormalRecv]);
        v.push(vec![T::NormalSent, T::NormalSent, T::TunnelSent]);
        v.push(vec![T::TimerEnd { machine: mid(0) }]);
        v.push(vec![T::BlockingBegin { machine: mid(n) }]);
        v.push(vec![T::NormalRecv]);
        v.push(vec![T::BlockingEnd, T::NormalSent]);
        v
    };
    let (sa, sb) = (script(a.machines.len()), script(b.machines.len()));
    let (mut ta, mut tb) = (a.start, b.start);
    let mut stats = Stats::default();
    for k in 0..sa.len().max(sb.len()) {
        for (which, f, obs, cfg, sc, t, step) in [(0, &mut fa, &mut oa, a, &sa, &mut ta, 3u64), (1, &mut fb, &mut ob, b, &sb, &mut tb, 5u64)] {
            let Some(batch) = sc.get(k) else { continue };
            let prev = *t;
            *t += step;
            let before = f.verif_snapshot();
            calls += 1;
            let (acts, nd) = match run_call(f, batch, *t, &[]) {
                Ok(x) => x,
                Err(e) => return (calls, Some(format!("instance {which} ({}) panicked at call {k}: {e}", cfg.label))),
            };
            let after = f.verif_snapshot();
            let ctx = CallCtx { cfg, batch, prev_now: prev, now: *t, script: &[], draws: nd, actions: &acts, steps: f.verif_steps(), before: &before, after: &after, fw_after: f };
            if let Err(e) = obs.on_call(&ctx, &mut stats) {
                return (calls, Some(format!("two unrelated instances advanced alternately: instance {which} ({}) deviates from its own reference semantics at its call {k} {:?}: {e}", cfg.label, batch_to_strings(batch))));
            }
        }
    }
    (calls, None)
}

pub fn isolation_pairs(q: bool) -> Vec<(Cfg, Cfg)> {
    let mut lib: Vec<(String, maybenot::Machine)> = vec![];
    lib.extend(fam::p_pad().into_iter().step_by(3));
    lib.extend(fam::p_blk().into_iter().step_by(4));
    lib.extend(fam::p_lim().into_iter().step_by(7));
    lib.extend(fam::p_sig());
    lib.extend(fam::p_ctr().into_iter().step_by(if q { 31 } else { 7 }));
    lib.extend(fam::g2(if q { 9973 } else { 1999 }, 3));
    let fr = [(0.5, 0.5), (0.25, 1.0), (0.0, 0.0), (1.0, 0.25)];
    let mut singles = fam::singles(&lib, &fr[..2]);
    singles.extend(fam::pairs_strided(&lib, 31, 7, &fr));
    // different start times, so that a value cached from another instance is visibly wrong
    for (i, c) in singles.iter_mut().enumerate() {
        c.start = 1_000 + 37 * (i as u64 % 11);
    }
    let n = singles.len();
    (0..n).map(|i| (singles[i].clone(), singles[(i * 7 + 3) % n].clone())).collect()
}

pub const RULE: &str = "every explored transition = one trigger_events call on the real Framework from an explored state, for every batch of the alphabet, every time step and every RNG script; each is executed in lock-step on the reference semantics and compared (actions, internal step sequence, draw count, runtime snapshot). distinct_nontrivial = distinct product states first reached by a call in which some machine took a transition or an action was returned";

pub fn worker(ctx: &WorkerCtx) -> WorkerOut {
    // isolation sub-check first, single-threaded and deterministic (before any other instance exists in this process)
    let mut iso_reported = vec![];
    let mut iso_calls = 0u64;
    let pairs = isolation_pairs(ctx.quick());
    if ctx.only_unit.is_none() {
        let o = Opts { n32: 2, n64: 3, ..Default::default() };
        for (i, (a, b)) in pairs.iter().enumerate() {
            let (n, f) = isolation_run(a, b, &o);
            iso_calls += n;
            if i % 64 == 0 {
                crate::supervise::beat();
            }
            if let Some(msg) = f {
                if iso_reported.len() < 5 {
                    iso_reported.push(Rep {
                        signature: format!("C05:isolation:{}|{}", a.label, b.label),
                        summary: format!("[{} || {}] {}", a.label, b.label, msg),
                        replay: json!({"property": "C05", "engine": "E1-isolation", "message": msg, "pair_index": i, "tier": ctx.tier,
                            "first": {"label": a.label, "machines_debug": a.machines.iter().map(|m| format!("{:?}", m)).collect::<Vec<_>>(), "start_us": a.start, "fracs": [a.pad_frac, a.blk_frac]},
                            "second": {"label": b.label, "machines_debug": b.machines.iter().map(|m| format!("{:?}", m)).collect::<Vec<_>>(), "start_us": b.start, "fracs": [b.pad_frac, b.blk_frac]}}),
                    });
                }
            }
        }
    }
    let mut s = run_e1::<Obs>("C05", plans(ctx), ctx, RULE);
    s.coverage["isolation_pairs_advanced_alternately"] = json!(pairs.len());
    s.coverage["isolation_calls"] = json!(iso_calls);
    s.reported.extend(iso_reported);
    let vacuous = if s.nontrivial_states < 1000 && ctx.only_unit.is_none() && s.reported.is_empty() { Some(format!("only {} non-trivial states", s.nontrivial_states)) } else { None };
    WorkerOut {
        level: "model_checking",
        coverage: s.coverage,
        assumptions: vec![
            "target selection (State::sample_state) and distribution sampling (Dist::sample) are delegated to the real functions; they are decided by C06 and C13".into(),
            "the reference semantics is harness/src/spec.rs, a reading of the crate documentation".into(),
            "random draws take values from the listed menus only; time steps from the listed set".into(),
        ],
        reported: s.reported,
        vacuous,
    }
}

pub fn replay(v: &Value) -> Result<Option<String>, String> {
    if v["engine"].as_str() == Some("E1-isolation") {
        // deterministic single-threaded re-run of the same alternating pair, twice
        let q = v["tier"].as_str() != Some("thorough");
        let pairs = isolation_pairs(q);
        let i = v["pair_index"].as_u64().ok_or("no pair index")? as usize;
        let (a, b) = pairs.get(i).ok_or("pair index out of range")?;
        let o = Opts { n32: 2, n64: 3, ..Default::default() };
        let r1 = isolation_run(a, b, &o).1;
        let r2 = isolation_run(a, b, &o).1;
        if r1.is_some() != r2.is_some() {
            return Err(format!("isolation replay is not deterministic: {:?} / {:?}", r1, r2));
        }
        return Ok(r1);
    }
    replay_e1::<Obs>(v, true)
}
