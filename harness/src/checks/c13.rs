//! C13 (engine E3) — sampling a validated distribution returns promptly with
//! a value in range. Enumerated: 11 families x a parameter corner grid x
//! (start, max) corner pairs, filtered through the real `Dist::validate`; for
//! each validated distribution every RNG script that deviates from a fair
//! stream by a prefix of at most d extreme words (plus long constant prefixes),
//! followed by a fair tail. Samples of the family with a known sampler defect
//! (Binomial) run in helper subprocesses with a watchdog, because a loop that
//! stops drawing cannot be interrupted otherwise.
use super::*;
use crate::rng::WordRng;
use maybenot::action::Action;
use maybenot::counter::{Counter, Operation};
use maybenot::dist::{Dist, DistType};
use maybenot::event::{Event, TriggerEvent};
use maybenot::state::Trans;
use maybenot::{Framework, Machine};
use std::io::{BufRead, BufReader, Write};
use std::process::{Command, Stdio};
use std::sync::atomic::{AtomicUsize, Ordering};
use std::sync::mpsc;
use std::time::Duration;

pub const WORDS: [u64; 9] = [0, u64::MAX, 0x5555_5555_5555_5555, 0xAAAA_AAAA_AAAA_AAAA, 1 << 63, 1, (1 << 63) - 1, 0xFFFF_FFFF_0000_0000, 0x0000_0000_FFFF_FFFF];
pub const DRAW_CAP: usize = 100_000;
pub const DAY_US: u64 = 86_400_000_000;

fn up(x: f64) -> f64 {
    f64::from_bits(x.to_bits() + 1)
}
fn down(x: f64) -> f64 {
    f64::from_bits(x.to_bits() - 1)
}
fn pos_menu() -> Vec<f64> {
    vec![f64::from_bits(1), f64::MIN_POSITIVE, 1e-300, 1e-9, 1e-3, 0.5, down(1.0), 1.0, up(1.0), 2.0, 10.0, 1e3, 1e9, 1e42, 1e300, f64::MAX, f64::INFINITY]
}
fn any_menu() -> Vec<f64> {
    let mut v = vec![0.0, -0.0, f64::NAN];
    for x in [f64::MIN_POSITIVE, 1e-9, 0.5, 1.0, 2.0, 1e3, 1e9, 1e42, 1e300, f64::MAX, f64::INFINITY] {
        v.push(x);
        v.push(-x);
    }
    v
}
fn prob_menu() -> Vec<f64> {
    vec![0.0, -0.0, down(1e-9), 1e-9, up(1e-9), 1e-6, 1e-3, 0.25, down(0.5), 0.5, up(0.5), 0.75, 0.999, 0.999999999, down(1.0), 1.0, up(1.0), f64::NAN, -1e-9, f64::MIN_POSITIVE]
}
fn trials_menu() -> Vec<u64> {
    vec![0, 1, 2, 9, 10, 20, 21, 100, 1000, 1_000_000, i32::MAX as u64, i32::MAX as u64 + 1, 999_999_999, 1_000_000_000, 1_000_000_001, u32::MAX as u64, 1 << 32, (1 << 32) + 1, (1 << 33) + 123_456_789, 0xFFFF_FFFF_0000_0000, 1 << 63, u64::MAX]
}
pub fn start_max() -> Vec<(f64, f64)> {
    vec![(0.0, 0.0), (5.0, 0.0), (0.0, 5.0), (5.0, 3.0), (f64::NAN, 0.0), (0.0, f64::NAN), (f64::INFINITY, 0.0), (0.0, f64::INFINITY), (f64::NEG_INFINITY, 7.0), (1e300, 1e300), (-5.0, 2.0), (0.0, f64::MIN_POSITIVE)]
}

/// Candidate distribution types (before validation), `dense` selects the full grid.
pub fn dist_types(dense: bool) -> Vec<DistType> {
    let p = pos_menu();
    let a = any_menu();
    let pr = prob_menu();
    let step = if dense { 1 } else { 2 };
    let mut v = vec![];
    // incl. NaN and infinities: validation has to reject those (candidates it rejects are counted, not sampled)
    for (i, lo) in a.iter().enumerate() {
        for hi in a.iter().skip(i % step).step_by(step) {
            v.push(DistType::Uniform { low: *lo, high: *hi });
        }
    }
    // all pairs over the zero / sign corner (equal bounds with opposite-sign zeros, tiny ranges)
    let z = [0.0, -0.0, f64::MIN_POSITIVE, -f64::MIN_POSITIVE, f64::from_bits(1), 1.0, -1.0];
    for lo in z {
        for hi in z {
            v.push(DistType::Uniform { low: lo, high: hi });
        }
    }
    v.push(DistType::Uniform { low: 3.0, high: 3.0 });
    v.push(DistType::Uniform { low: -f64::MAX / 2.0, high: f64::MAX / 2.0 });
    for m in a.iter().step_by(step) {
        for s in a.iter() {
            v.push(DistType::Normal { mean: *m, stdev: *s });
            v.push(DistType::LogNormal { mu: *m, sigma: *s });
        }
    }
    for l in a.iter().step_by(2 * step) {
        for sc in p.iter().step_by(step) {
            for sh in a.iter().step_by(step) {
                v.push(DistType::SkewNormal { location: *l, scale: *sc, shape: *sh });
            }
        }
    }
    for t in trials_menu() {
        for q in &pr {
            v.push(DistType::Binomial { trials: t, probability: *q });
        }
    }
    for q in &pr {
        v.push(DistType::Geometric { probability: *q });
    }
    for x in &p {
        for y in &p {
            v.push(DistType::Pareto { scale: *x, shape: *y });
            v.push(DistType::Weibull { scale: *x, shape: *y });
            v.push(DistType::Gamma { scale: *x, shape: *y });
            v.push(DistType::Beta { alpha: *x, beta: *y });
        }
        v.push(DistType::Poisson { lambda: *x });
        v.push(DistType::Poisson { lambda: *x * 3.7 });
    }
    for l in [down(1e42), 1e42, up(1e42), 11.9, 12.0, 12.1, 1e15, 1e17, 4e18, 1e19, 1e20] {
        v.push(DistType::Poisson { lambda: l });
    }
    v
}

pub fn validated(dense: bool) -> (Vec<Dist>, usize, Vec<Dist>) {
    let mut out = vec![];
    let mut rejected = vec![];
    let mut cands = 0;
    let sm = start_max();
    for (i, t) in dist_types(dense).into_iter().enumerate() {
        // every (start, max) pair for a rotating third of the types, the three basic pairs for all
        for (j, (s, m)) in sm.iter().enumerate() {
            if j >= 3 && !dense && (i + j) % 3 != 0 {
                continue;
            }
            cands += 1;
            let d = Dist { dist: t, start: *s, max: *m };
            if std::panic::catch_unwind(|| d.validate().is_ok()).unwrap_or(false) {
                out.push(d);
            } else if j < 2 {
                rejected.push(d);
            }
        }
    }
    (out, cands, rejected)
}

/// Script prefixes: all words^len for len <= maxlen, plus the 9 constant prefixes of length 64.
pub fn scripts(maxlen: usize) -> Vec<Vec<u64>> {
    let mut v: Vec<Vec<u64>> = vec![vec![]];
    let mut layer: Vec<Vec<u64>> = vec![vec![]];
    for _ in 0..maxlen {
        let mut nx = vec![];
        for p in &layer {
            for w in WORDS {
                let mut q = p.clone();
                q.push(w);
                nx.push(q);
            }
        }
        v.extend(nx.iter().cloned());
        layer = nx;
    }
    for w in WORDS {
        v.push(vec![w; 64]);
    }
    v
}

fn family(d: &Dist) -> &'static str {
    match d.dist {
        DistType::Uniform { .. } => "Uniform",
        DistType::Normal { .. } => "Normal",
        DistType::SkewNormal { .. } => "SkewNormal",
        DistType::LogNormal { .. } => "LogNormal",
        DistType::Binomial { .. } => "Binomial",
        DistType::Geometric { .. } => "Geometric",
        DistType::Pareto { .. } => "Pareto",
        DistType::Poisson { .. } => "Poisson",
        DistType::Weibull { .. } => "Weibull",
        DistType::Gamma { .. } => "Gamma",
        DistType::Beta { .. } => "Beta",
    }
}

/// One sample with the value oracle. Ok(value) or Err((kind, message)).
pub fn sample_once(d: &Dist, words: &[u64], tail_seed: u64) -> Result<f64, (String, String)> {
    let mut rng = WordRng::new(words, tail_seed);
    rng.cap = DRAW_CAP;
    let t0 = std::time::Instant::now();
    let r = std::panic::catch_unwind(std::panic::AssertUnwindSafe(|| d.sample(&mut rng)));
    let el = t0.elapsed();
    match r {
        Err(_) => {
            let m = crate::explore::last_panic();
            if m.contains("draw cap exceeded") {
                Err(("hang-drawing".into(), format!("did not return within {} draws", DRAW_CAP)))
            } else {
                Err(("panic".into(), format!("sample panicked: {}", first_line(&m))))
            }
        }
        Ok(v) => {
            if el > Duration::from_millis(250) {
                // wall-clock time on a loaded machine is noisy: only a sample that is slow three times in a row counts
                let mut best = el;
                for _ in 0..2 {
                    let mut r2 = WordRng::new(words, tail_seed);
                    r2.cap = DRAW_CAP;
                    let t1 = std::time::Instant::now();
                    let _ = std::panic::catch_unwind(std::panic::AssertUnwindSafe(|| d.sample(&mut r2)));
                    best = best.min(t1.elapsed());
                }
                if best > Duration::from_millis(250) {
                    return Err(("slow".into(), format!("sample took {:?} (fastest of three attempts)", best)));
                }
            }
            if v.is_nan() {
                return Err(("nan".into(), "sample returned NaN".into()));
            }
            if v < 0.0 {
                return Err(("negative".into(), format!("sample returned {v} < 0")));
            }
            if d.max > 0.0 && v > d.max {
                return Err(("above-max".into(), format!("sample returned {v} above the maximum {}", d.max)));
            }
            Ok(v)
        }
    }
}

/// The value through the framework's consumers: timeout / duration clamp, limit rounding, counter cast.
/// positions 0..8 as documented below; +8: the state carrying the distribution is a *sink* (no outgoing
/// transitions); +16: the machine is a literal handed straight to `Framework::new` (not `Machine::new`)
pub const CONSUMER_POSITIONS: usize = 24;
pub fn consumer_once(d: &Dist, pos: usize, words: &[u64], tail_seed: u64) -> Result<(), (String, String)> {
    use Event::*;
    let (variant, pos) = (pos / 8, pos % 8);
    let t: enum_map::EnumMap<Event, Vec<Trans>> = enum_map::enum_map! { NormalRecv => vec![Trans(1, 1.0)], NormalSent => vec![Trans(0, 1.0)], PaddingSent => vec![Trans(1, 1.0)], _ => vec![] };
    let t_worker: enum_map::EnumMap<Event, Vec<Trans>> = if variant == 1 { enum_map::enum_map! { _ => vec![] } } else { t.clone() };
    let cst = crate::fam::c(1.0);
    let (a, ctr) = match pos {
        0 => (Some(Action::SendPadding { bypass: false, replace: false, timeout: *d, limit: None }), (None, None)),
        1 => (Some(Action::BlockOutgoing { bypass: false, replace: false, timeout: cst, duration: *d, limit: None }), (None, None)),
        2 => (Some(Action::UpdateTimer { replace: false, duration: cst, limit: Some(*d) }), (None, None)),
        3 => (Some(Action::Cancel { timer: maybenot::action::Timer::All }), (Some(Counter::new_dist(Operation::Set, *d)), Some(Counter::new_dist(Operation::Decrement, *d)))),
        4 => (None, (Some(Counter::new_dist(Operation::Increment, *d)), None)),
        5 => (None, (Some(Counter::new_dist(Operation::Increment, cst)), Some(Counter::new_dist(Operation::Set, *d)))),
        6 => (Some(Action::SendPadding { bypass: true, replace: true, timeout: cst, limit: Some(*d) }), (None, None)),
        _ => (Some(Action::BlockOutgoing { bypass: true, replace: true, timeout: *d, duration: cst, limit: Some(cst) }), (None, None)),
    };
    // through the validating constructor: a machine it rejects is not part of the claim
    let states = vec![crate::fam::st_map(t.clone(), None, (None, None)), crate::fam::st_map(t_worker, a, ctr)];
    let m = if variant == 2 {
        // a literal: `Framework::new` below is the validation gate
        Machine { allowed_padding_packets: u64::MAX, max_padding_frac: 0.0, allowed_blocked_microsec: u64::MAX, max_blocking_frac: 0.0, states }
    } else {
        match std::panic::catch_unwind(std::panic::AssertUnwindSafe(|| Machine::new(u64::MAX, 0.0, u64::MAX, 0.0, states))) {
            Ok(Ok(m)) => m,
            Ok(Err(_)) => return Err(("rejected".into(), String::new())),
            Err(_) => return Err(("panic".into(), format!("Machine::new panicked: {}", first_line(&crate::explore::last_panic())))),
        }
    };
    let mut script = vec![0u64]; // the transition draw
    script.extend_from_slice(words);
    let mut rng = WordRng::new(&script, tail_seed);
    rng.cap = DRAW_CAP;
    let r = std::panic::catch_unwind(std::panic::AssertUnwindSafe(|| -> Result<(), String> {
        let t0 = std::time::Instant::now();
        let mut f = match Framework::new(std::slice::from_ref(&m), 0.0, 0.0, t0, rng) {
            Ok(f) => f,
            Err(_) if variant == 2 => return Err("rejected-by-framework".to_string()),
            Err(e) => return Err(format!("Framework::new failed for a validated distribution: {:?}", e)),
        };
        for e in [TriggerEvent::NormalRecv, TriggerEvent::PaddingSent { machine: maybenot::MachineId::from_raw(0) }, TriggerEvent::NormalSent, TriggerEvent::NormalRecv] {
            for a in f.trigger_events(&[e], t0) {
                let (x, y) = match crate::types::conv_std(a) {
                    crate::types::Act::Pad { timeout, .. } => (timeout, 0),
                    crate::types::Act::Block { timeout, duration, .. } => (timeout, duration),
                    crate::types::Act::Timer { duration, .. } => (0, duration),
                    _ => (0, 0),
                };
                if x > DAY_US || y > DAY_US {
                    return Err(format!("timeout/duration {x}/{y} us above one day"));
                }
            }
        }
        Ok(())
    }));
    match r {
        Ok(Ok(())) => Ok(()),
        Ok(Err(e)) if e == "rejected-by-framework" => Err(("rejected".into(), String::new())),
        Ok(Err(e)) => Err(("consumer".into(), e)),
        Err(_) => {
            let m = crate::explore::last_panic();
            if m.contains("draw cap exceeded") {
                Err(("hang-drawing".into(), format!("framework call did not return within {} draws", DRAW_CAP)))
            } else {
                Err(("panic".into(), format!("framework call panicked: {}", first_line(&m))))
            }
        }
    }
}

fn enc_dist(d: &Dist) -> String {
    hex::encode(bincode::serialize(d).unwrap())
}
fn dec_dist(s: &str) -> Option<Dist> {
    bincode::deserialize(&hex::decode(s).ok()?).ok()
}

/// Helper subprocess: reads "<dist hex> <tail seed> <word> <word> ..." lines, answers one line each.
pub fn helper_main() -> i32 {
    crate::explore::install_quiet_panic_hook();
    let stdin = std::io::stdin();
    let mut out = std::io::stdout();
    for line in stdin.lock().lines() {
        let Ok(line) = line else { break };
        let mut it = line.split_whitespace();
        let (Some(dh), Some(ts)) = (it.next(), it.next()) else { continue };
        let Some(d) = dec_dist(dh) else {
            let _ = writeln!(out, "bad");
            continue;
        };
        let words: Vec<u64> = it.filter_map(|w| u64::from_str_radix(w, 16).ok()).collect();
        let r = sample_once(&d, &words, ts.parse().unwrap_or(0));
        let _ = match r {
            Ok(v) => writeln!(out, "ok {}", v),
            Err((k, m)) => writeln!(out, "viol {} {}", k, m.replace('\n', " ")),
        };
        let _ = out.flush();
    }
    0
}

struct Helper {
    child: std::process::Child,
    stdin: std::process::ChildStdin,
    rx: mpsc::Receiver<String>,
}
fn spawn_helper() -> Helper {
    let exe = std::env::current_exe().expect("exe");
    let mut child = Command::new(exe).arg("--c13-helper").stdin(Stdio::piped()).stdout(Stdio::piped()).stderr(Stdio::null()).spawn().expect("spawn helper");
    let stdin = child.stdin.take().unwrap();
    let stdout = child.stdout.take().unwrap();
    let (tx, rx) = mpsc::channel();
    std::thread::spawn(move || {
        for l in BufReader::new(stdout).lines() {
            match l {
                Ok(l) => {
                    if tx.send(l).is_err() {
                        break;
                    }
                }
                Err(_) => break,
            }
        }
    });
    Helper { child, stdin, rx }
}

#[derive(Clone)]
pub struct Finding {
    pub kind: String,
    pub msg: String,
    pub dist: Dist,
    pub words: Vec<u64>,
    pub tail: u64,
    pub consumer: Option<usize>,
}
fn signature(f: &Finding) -> String {
    let fam = family(&f.dist);
    // u = (w >> 11) * 2^-53 within 2^-30 of 1: above the total mass the BINV recurrence accumulates
    if fam == "Binomial" && f.kind == "hang" && f.words.iter().take(3).any(|w| *w >> 34 == u64::MAX >> 34) {
        return "C13:Binomial:BINV-inversion-loop-never-terminates:uniform-draw-within-2^-30-of-1".into();
    }
    if fam == "Binomial" && f.kind == "panic" && f.msg.contains("binomial.rs") {
        return "C13:Binomial:BTPE-f64_to_i64-assertion".into();
    }
    format!("C13:{}:{}:{}", fam, f.kind, first_line(&f.msg).chars().take(50).collect::<String>())
}

pub fn worker(ctx: &WorkerCtx) -> WorkerOut {
    let q = ctx.quick();
    let t0 = std::time::Instant::now();
    let (dists, cands, rejected) = validated(!q);
    let scr = scripts(if q { 2 } else { 3 });
    let tails: Vec<u64> = (0..if q { 1 } else { 3 }).map(|i| ctx.seed.wrapping_mul(0x9E37_79B9).wrapping_add(i)).collect();
    let (bin, rest): (Vec<Dist>, Vec<Dist>) = dists.iter().cloned().partition(|d| family(d) == "Binomial");
    // in-process sweep of the 10 families without a known non-drawing hang
    let next = AtomicUsize::new(0);
    let crumbs = crate::supervise::global_crumbs();
    let fine = crate::supervise::global_fine();
    const CH: usize = 16;
    let nch = (rest.len() + CH - 1) / CH;
    type Part = (u64, u64, u64, Vec<Finding>, std::collections::BTreeMap<&'static str, u64>);
    let parts: Vec<Part> = std::thread::scope(|sc| {
        let hs: Vec<_> = (0..ctx.threads())
            .map(|ti| {
                let (next, rest, scr, tails) = (&next, &rest, &scr, &tails);
                sc.spawn(move || {
                    let (mut n, mut inf, mut cons) = (0u64, 0u64, 0u64);
                    let mut finds: Vec<Finding> = vec![];
                    let mut fams: std::collections::BTreeMap<&'static str, u64> = Default::default();
                    loop {
                        let ci = next.fetch_add(1, Ordering::Relaxed);
                        if ci >= nch {
                            break;
                        }
                        if let Some(u) = ctx.only_unit {
                            if u != ci as u64 {
                                continue;
                            }
                        }
                        if let Some(c) = crumbs {
                            c.set(ti, ci as u64);
                        }
                        for di in ci * CH..((ci + 1) * CH).min(rest.len()) {
                            let d = &rest[di];
                            *fams.entry(family(d)).or_insert(0) += 1;
                            for (si, w) in scr.iter().enumerate() {
                                for tl in tails {
                                    if let Some(fc) = fine {
                                        fc.write(&json!({"property": "C13", "engine": "E3", "dist": format!("{:?}", d), "dist_hex": enc_dist(d), "words": w.iter().map(|x| format!("{:x}", x)).collect::<Vec<_>>(), "tail_seed": tl, "message": "worker died (hang without drawing, or abort) while sampling"}));
                                    }
                                    n += 1;
                                    match sample_once(d, w, *tl) {
                                        Ok(v) => {
                                            if v.is_infinite() {
                                                inf += 1;
                                            }
                                        }
                                        Err((k, m)) => finds.push(Finding { kind: k, msg: m, dist: *d, words: w.clone(), tail: *tl, consumer: None }),
                                    }
                                }
                                // the consumers, on a third of the scripts
                                if si % 3 == 0 {
                                    for pos in 0..16 {
                                        cons += 1;
                                        if let Err((k, m)) = consumer_once(d, pos, w, tails[0]) {
                                            if k == "rejected" {
                                                // Dist::validate accepts, a machine constructor does not: C12's subject
                                                continue;
                                            }
                                            finds.push(Finding { kind: k, msg: m, dist: *d, words: w.clone(), tail: tails[0], consumer: Some(pos) });
                                        }
                                    }
                                }
                            }
                        }
                    }
                    if let Some(c) = crumbs {
                        c.set(ti, u64::MAX);
                    }
                    (n, inf, cons, finds, fams)
                })
            })
            .collect();
        hs.into_iter().map(|h| h.join().unwrap()).collect()
    });
    let (mut n, mut inf, mut cons) = (0u64, 0u64, 0u64);
    let mut finds: Vec<Finding> = vec![];
    let mut fams: std::collections::BTreeMap<&'static str, u64> = Default::default();
    // distributions Dist::validate rejects, placed in every position of a machine: if a validating
    // constructor nevertheless accepts the machine, it must run ("a machine that passed validation can
    // never stall or crash the framework through its distributions")
    let mut rejected_machines_accepted = 0u64;
    let mut rejected_tried = 0u64;
    {
        // units 10_000_000 + chunk: attributable through breadcrumbs like the in-process sweep
        let rej: Vec<&Dist> = rejected.iter().filter(|d| family(d) != "Binomial").collect();
        const RCH: usize = 32;
        for (ci, chunk) in rej.chunks(RCH).enumerate() {
            let unit = 10_000_000 + ci as u64;
            if let Some(u) = ctx.only_unit {
                if u != unit {
                    continue;
                }
            }
            if let Some(c) = crumbs {
                c.set(0, unit);
            }
            for d in chunk {
                for pos in 0..CONSUMER_POSITIONS {
                    rejected_tried += 1;
                    if let Some(fc) = fine {
                        fc.write(&json!({"property": "C13", "engine": "E3", "dist": format!("{:?}", d), "dist_hex": enc_dist(d), "words": [], "tail_seed": tails[0], "consumer": pos, "kind": "hang", "message": "worker died (hang without drawing, or abort) while running a machine that carries a distribution Dist::validate rejects but a machine constructor accepted"}));
                    }
                    match consumer_once(d, pos, &[], tails[0]) {
                        Err((k, _)) if k == "rejected" => {}
                        Ok(()) => rejected_machines_accepted += 1,
                        Err((k, m)) => {
                            rejected_machines_accepted += 1;
                            finds.push(Finding { kind: format!("accepted-invalid-{k}"), msg: format!("a machine carrying a distribution that Dist::validate rejects was accepted by Machine::new, and running it: {m}"), dist: **d, words: vec![], tail: tails[0], consumer: Some(pos) });
                        }
                    }
                }
            }
        }
        if let Some(c) = crumbs {
            c.set(0, u64::MAX);
        }
    }
    for (a, b, c2, f, fm) in parts {
        n += a;
        inf += b;
        cons += c2;
        finds.extend(f);
        for (k, v) in fm {
            *fams.entry(k).or_insert(0) += v;
        }
    }
    // Binomial: helper subprocesses with a watchdog (a non-drawing loop cannot be interrupted in-process)
    // quick: every third Binomial, and every one whose trial count is above the documented bound (none on a tree whose validation is right)
    let over = |d: &Dist| matches!(d.dist, DistType::Binomial { trials, .. } if trials > 1_000_000_000);
    let bin_sub: Vec<Dist> = if q { bin.iter().enumerate().filter(|(i, d)| i % 3 == 0 || over(d)).map(|(_, d)| *d).collect() } else { bin.clone() };
    let bscr: Vec<Vec<u64>> = scripts(if q { 1 } else { 2 });
    let mut jobs: Vec<(Dist, Vec<u64>)> = vec![];
    for d in &bin_sub {
        for w in &bscr {
            jobs.push((*d, w.clone()));
        }
    }
    fams.insert("Binomial", bin_sub.len() as u64);
    let bnext = AtomicUsize::new(0);
    let bparts: Vec<(u64, u64, Vec<Finding>)> = if ctx.only_unit.is_some() {
        vec![]
    } else {
        std::thread::scope(|sc| {
            let hs: Vec<_> = (0..ctx.threads())
                .map(|_| {
                    let (bnext, jobs, tails) = (&bnext, &jobs, &tails);
                    sc.spawn(move || {
                        let mut h = spawn_helper();
                        let (mut n, mut hangs) = (0u64, 0u64);
                        let mut finds = vec![];
                        let mut known_hangs_seen = 0u32;
                        let known_pre = |w: &Vec<u64>| w.iter().take(3).any(|x| *x >> 34 == u64::MAX >> 34);
                        loop {
                            let i = bnext.fetch_add(1, Ordering::Relaxed);
                            if i >= jobs.len() {
                                break;
                            }
                            let (d, w) = &jobs[i];
                            if known_hangs_seen >= 2 && known_pre(w) {
                                // inputs carrying the precondition of the recorded Binomial finding: already confirmed twice by this
                                // thread; executing every one of them would only wait for the watchdog again
                                finds.push(Finding { kind: "skipped-known-precondition".into(), msg: String::new(), dist: *d, words: w.clone(), tail: tails[0], consumer: None });
                                continue;
                            }
                            let line = format!("{} {} {}\n", enc_dist(d), tails[0], w.iter().map(|x| format!("{:x}", x)).collect::<Vec<_>>().join(" "));
                            n += 1;
                            if i % 256 == 0 {
                                crate::supervise::beat();
                            }
                            if h.stdin.write_all(line.as_bytes()).is_err() || h.stdin.flush().is_err() {
                                let _ = h.child.kill();
                                let _ = h.child.wait();
                                h = spawn_helper();
                                finds.push(Finding { kind: "abort".into(), msg: "helper died".into(), dist: *d, words: w.clone(), tail: tails[0], consumer: None });
                                continue;
                            }
                            match h.rx.recv_timeout(Duration::from_millis(1500)) {
                                Ok(l) => {
                                    if let Some(rest) = l.strip_prefix("viol ") {
                                        let (k, m) = rest.split_once(' ').unwrap_or((rest, ""));
                                        finds.push(Finding { kind: k.into(), msg: m.into(), dist: *d, words: w.clone(), tail: tails[0], consumer: None });
                                    }
                                }
                                Err(_) => {
                                    // confirm with a fresh helper and a longer watchdog before calling it a hang
                                    let _ = h.child.kill();
                                    let _ = h.child.wait();
                                    h = spawn_helper();
                                    let _ = h.stdin.write_all(line.as_bytes());
                                    let _ = h.stdin.flush();
                                    match h.rx.recv_timeout(Duration::from_millis(4000)) {
                                        Ok(l) => {
                                            if let Some(rest) = l.strip_prefix("viol ") {
                                                let (k, m) = rest.split_once(' ').unwrap_or((rest, ""));
                                                finds.push(Finding { kind: k.into(), msg: m.into(), dist: *d, words: w.clone(), tail: tails[0], consumer: None });
                                            }
                                        }
                                        Err(_) => {
                                            hangs += 1;
                                            if known_pre(w) {
                                                known_hangs_seen += 1;
                                            }
                                            let _ = h.child.kill();
                                            let _ = h.child.wait();
                                            h = spawn_helper();
                                            finds.push(Finding { kind: "hang".into(), msg: "sample did not return within 1.5 s, nor within 4 s in a fresh process, and stopped drawing random numbers".into(), dist: *d, words: w.clone(), tail: tails[0], consumer: None });
                                        }
                                    }
                                }
                            }
                        }
                        let _ = h.child.kill();
                        let _ = h.child.wait();
                        (n, hangs, finds)
                    })
                })
                .collect();
            hs.into_iter().map(|h| h.join().unwrap()).collect()
        })
    };
    let mut bn = 0u64;
    let mut hangs = 0u64;
    for (a, b, f) in bparts {
        bn += a;
        hangs += b;
        finds.extend(f);
    }
    // de-duplicate by signature, simplest script first
    let skipped_known = finds.iter().filter(|f| f.kind == "skipped-known-precondition").count();
    finds.retain(|f| f.kind != "skipped-known-precondition");
    finds.sort_by_key(|f| (f.words.len(), f.consumer.is_some()));
    let mut by_sig: std::collections::BTreeMap<String, (u64, Finding)> = Default::default();
    for f in finds {
        let s = signature(&f);
        by_sig.entry(s).and_modify(|e| e.0 += 1).or_insert((1, f));
    }
    let mut reported = vec![];
    for (sig, (count, f)) in by_sig.iter().take(30) {
        reported.push(Rep {
            signature: sig.clone(),
            summary: format!("{:?} with RNG words {:x?} then a fair tail{}: {} ({} inputs with this signature)", f.dist, f.words, f.consumer.map(|p| format!(" (through consumer position {p})")).unwrap_or_default(), f.msg, count),
            replay: json!({"property": "C13", "engine": "E3", "dist": format!("{:?}", f.dist), "dist_hex": enc_dist(&f.dist), "words": f.words.iter().map(|x| format!("{:x}", x)).collect::<Vec<_>>(), "tail_seed": f.tail, "consumer": f.consumer, "kind": f.kind, "message": f.msg}),
        });
    }
    let samples = vec![
        json!({"dist": format!("{:?}", rest.get(rest.len() / 3)), "rng_words": ["0", "ffffffffffffffff"], "then": "fair xoshiro tail"}),
        json!({"dist": format!("{:?}", rest.get(rest.len() / 2)), "rng_words": [], "then": "fair xoshiro tail"}),
    ];
    let coverage = json!({
        "evaluations": n + bn + cons, "distinct_nontrivial": (rest.len() + bin_sub.len()) as u64,
        "rule": "distributions = 11 families x parameter corner grid x (start,max) corner pairs, kept if the real Dist::validate accepts them; for each, every RNG script whose prefix is any sequence of <= d extreme words (9-word menu; d = 2 quick, 3 thorough), plus 9 constant 64-word prefixes, followed by a fair xoshiro tail; oracle: returns within 1e5 draws / 250 ms (Binomial: 1.5 s watchdog in a helper process), no panic, value not NaN, >= 0, <= max when set; also through the framework consumers (timeout, duration, limit, counter). distinct_nontrivial = validated distributions sampled",
        "samples": samples, "exhaustive": ctx.only_unit.is_none(),
        "candidate_distributions": cands, "validated_distributions": dists.len(), "distributions_per_family": fams.iter().map(|(k, v)| (k.to_string(), json!(v))).collect::<serde_json::Map<String, Value>>(),
        "scripts_per_distribution": scr.len(), "fair_tails": tails.len(), "in_process_samples": n, "binomial_helper_samples": bn, "binomial_helper_hangs": hangs, "binomial_inputs_skipped_after_two_confirmed_known_hangs_per_thread": skipped_known, "consumer_calls": cons, "rejected_distributions_tried_in_machines": rejected_tried, "machines_with_a_rejected_distribution_that_were_accepted": rejected_machines_accepted, "infinite_values_returned_without_max": inf,
        "findings_by_signature": by_sig.iter().map(|(k, v)| (k.clone(), json!(v.0))).collect::<serde_json::Map<String, Value>>(),
        "wall_s": t0.elapsed().as_secs_f64(),
    });
    let vacuous = if dists.len() < 500 && reported.is_empty() { Some(format!("only {} validated distributions", dists.len())) } else { None };
    WorkerOut { level: "exploration", coverage, assumptions: vec!["only streams within d <= 3 extreme words of a fair stream; the fair tail is a fixed PRNG (a sample)".into(), "+inf without a maximum is counted, not a violation (every consumer saturates)".into()], reported, vacuous }
}

pub fn replay(v: &Value) -> Result<Option<String>, String> {
    let d = dec_dist(v["dist_hex"].as_str().ok_or("no dist")?).ok_or("bad dist")?;
    let words: Vec<u64> = v["words"].as_array().map(|a| a.iter().filter_map(|x| u64::from_str_radix(x.as_str().unwrap_or(""), 16).ok()).collect()).unwrap_or_default();
    let tail = v["tail_seed"].as_u64().unwrap_or(0);
    if v["kind"].as_str() == Some("hang") {
        // re-run in a helper with the watchdog
        let mut res = vec![];
        for _ in 0..2 {
            let mut h = spawn_helper();
            let line = format!("{} {} {}\n", enc_dist(&d), tail, words.iter().map(|x| format!("{:x}", x)).collect::<Vec<_>>().join(" "));
            let _ = h.stdin.write_all(line.as_bytes());
            let _ = h.stdin.flush();
            let r = h.rx.recv_timeout(Duration::from_millis(3000));
            let _ = h.child.kill();
            let _ = h.child.wait();
            res.push(r.is_err());
        }
        if res[0] != res[1] {
            return Err("replay not deterministic".into());
        }
        return Ok(if res[0] { Some("sample did not return within 3 s".into()) } else { None });
    }
    let run1 = || match v["consumer"].as_u64() {
        Some(p) => consumer_once(&d, p as usize, &words, tail).err(),
        None => sample_once(&d, &words, tail).err(),
    };
    let a = run1();
    let b = run1();
    if a.as_ref().map(|x| &x.0) != b.as_ref().map(|x| &x.0) {
        return Err("replay not deterministic".into());
    }
    Ok(a.map(|(k, m)| format!("{k}: {m}")))
}
