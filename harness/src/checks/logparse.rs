//! Parse the hook's step log of one call into *deliveries*: one top-level
//! delivery of an event to a machine plus the internal steps (CounterZero,
//! LimitReached) nested in it. Observers use this to see internal events.
//!
//! The expected shape (events in order, machines in index order, one signal
//! round at the end) is C05's claim; if a log does not parse, the observers of
//! other properties skip the call (counted) instead of judging it.
use maybenot::event::{Event, TriggerEvent};
use maybenot::VerifStep;

#[derive(Debug, Clone)]
pub struct Delivery {
    /// index into the batch; None = signal round
    pub ev_idx: Option<usize>,
    pub machine: usize,
    pub event: Event,
    /// the trigger event is a completion of this machine's own action
    pub own_completion: bool,
    /// indices into the step log: [start, end)
    pub start: usize,
    pub end: usize,
}

fn nested(e: Event) -> bool {
    matches!(e, Event::CounterZero | Event::LimitReached)
}

pub fn parse(batch: &[TriggerEvent], m: usize, steps: &[VerifStep]) -> Result<Vec<Delivery>, String> {
    let mut out = vec![];
    let mut cur = 0usize;
    let take = |cur: &mut usize, machine: usize, event: Event, ev_idx: Option<usize>, own: bool, out: &mut Vec<Delivery>| -> Result<(), String> {
        if *cur >= steps.len() || steps[*cur].machine != machine || steps[*cur].event != event {
            return Err(format!("expected step ({machine}, {event:?}) at {cur}, log is {:?}", steps.iter().map(|s| (s.machine, s.event)).collect::<Vec<_>>()));
        }
        let start = *cur;
        *cur += 1;
        while *cur < steps.len() && steps[*cur].machine == machine && nested(steps[*cur].event) {
            *cur += 1;
        }
        out.push(Delivery { ev_idx, machine, event, own_completion: own, start, end: *cur });
        Ok(())
    };
    for (ei, e) in batch.iter().enumerate() {
        match e {
            TriggerEvent::NormalRecv | TriggerEvent::PaddingRecv | TriggerEvent::TunnelRecv | TriggerEvent::NormalSent | TriggerEvent::TunnelSent | TriggerEvent::BlockingEnd => {
                let ev = match e {
                    TriggerEvent::NormalRecv => Event::NormalRecv,
                    TriggerEvent::PaddingRecv => Event::PaddingRecv,
                    TriggerEvent::TunnelRecv => Event::TunnelRecv,
                    TriggerEvent::NormalSent => Event::NormalSent,
                    TriggerEvent::TunnelSent => Event::TunnelSent,
                    _ => Event::BlockingEnd,
                };
                for i in 0..m {
                    take(&mut cur, i, ev, Some(ei), false, &mut out)?;
                }
            }
            TriggerEvent::BlockingBegin { machine } => {
                for i in 0..m {
                    take(&mut cur, i, Event::BlockingBegin, Some(ei), i == machine.into_raw(), &mut out)?;
                }
            }
            TriggerEvent::PaddingSent { machine } => {
                if machine.into_raw() < m {
                    take(&mut cur, machine.into_raw(), Event::PaddingSent, Some(ei), true, &mut out)?;
                }
            }
            TriggerEvent::TimerBegin { machine } => {
                if machine.into_raw() < m {
                    take(&mut cur, machine.into_raw(), Event::TimerBegin, Some(ei), true, &mut out)?;
                }
            }
            TriggerEvent::TimerEnd { machine } => {
                if machine.into_raw() < m {
                    take(&mut cur, machine.into_raw(), Event::TimerEnd, Some(ei), false, &mut out)?;
                }
            }
        }
    }
    while cur < steps.len() {
        if steps[cur].event != Event::Signal {
            return Err(format!("unexpected step after the events: {:?}", steps[cur]));
        }
        let mi = steps[cur].machine;
        take(&mut cur, mi, Event::Signal, None, false, &mut out)?;
    }
    Ok(out)
}
