//! E4 runner: executes a list of jobs (closed simulator systems) in parallel on
//! the real simulator, judges each with a property oracle, de-duplicates
//! violations by signature and folds coverage counters.
use crate::checks::{Rep, WorkerCtx};
use crate::explore::Stats;
use crate::monitors::Viol;
use crate::sim::SimSys;
use serde_json::{json, Value};
use std::collections::{BTreeMap, HashSet};
use std::sync::atomic::{AtomicUsize, Ordering};

#[derive(Default)]
pub struct JobOut {
    pub events: u64,
    pub nontrivial: bool,
    pub out_hash: u64,
    pub viols: Vec<Viol>,
    pub sample: Option<Value>,
}

pub struct SimResult {
    pub runs: u64,
    pub events: u64,
    pub nontrivial_runs: u64,
    pub distinct_outputs: usize,
    pub distinct_nontrivial_outputs: usize,
    pub stats: Stats,
    pub reported: Vec<Rep>,
    pub violation_counts: BTreeMap<String, u64>,
    pub samples: Vec<Value>,
    pub jobs: usize,
}

pub const CHUNK: usize = 256;
/// per worker thread; beyond it the reported numbers of distinct outputs are lower bounds
pub const DISTINCT_CAP_PER_THREAD: usize = 3_000_000;

/// `njobs` job indices; `build(i)` decodes index i into a closed system (None = not part of the enumeration).
pub fn run_jobs(property: &str, njobs: usize, build: &(dyn Fn(usize) -> Option<SimSys> + Sync), judge: &(dyn Fn(&SimSys, &mut Stats) -> JobOut + Sync), ctx: &WorkerCtx) -> SimResult {
    let next = AtomicUsize::new(0);
    let crumbs = crate::supervise::global_crumbs();
    let fine = crate::supervise::global_fine();
    let nchunks = (njobs + CHUNK - 1) / CHUNK;
    struct Part {
        runs: u64,
        events: u64,
        nontrivial: u64,
        outs: HashSet<u64>,
        nt_outs: HashSet<u64>,
        stats: Stats,
        viols: Vec<(usize, Viol)>,
        samples: Vec<Value>,
    }
    let parts: Vec<Part> = std::thread::scope(|sc| {
        let hs: Vec<_> = (0..ctx.threads())
            .map(|ti| {
                let next = &next;
                std::thread::Builder::new()
                    .stack_size(64 << 20)
                    .spawn_scoped(sc, move || {
                        let mut p = Part { runs: 0, events: 0, nontrivial: 0, outs: HashSet::new(), nt_outs: HashSet::new(), stats: Stats::default(), viols: vec![], samples: vec![] };
                        let mut seen_sigs: HashSet<String> = HashSet::new();
                        loop {
                            let ci = next.fetch_add(1, Ordering::Relaxed);
                            if ci >= nchunks {
                                break;
                            }
                            if let Some(u) = ctx.only_unit {
                                if u != ci as u64 {
                                    continue;
                                }
                            }
                            if let Some(c) = crumbs {
                                c.set(ti, ci as u64);
                            }
                            for ji in ci * CHUNK..((ci + 1) * CHUNK).min(njobs) {
                                let Some(sys) = build(ji) else { continue };
                                if let Some(fc) = fine {
                                    fc.write(&json!({"property": property, "engine": "E4", "system": sys.to_json(), "message": "worker died (abort or hang) while simulating this system"}));
                                }
                                let out = judge(&sys, &mut p.stats);
                                p.runs += 1;
                                p.events += out.events;
                                // the sets of distinct outputs only feed the coverage report: bounded, so that a
                                // billion-system run does not need tens of gigabytes for them
                                if p.outs.len() < DISTINCT_CAP_PER_THREAD {
                                    p.outs.insert(out.out_hash);
                                }
                                if out.nontrivial {
                                    p.nontrivial += 1;
                                    if p.nt_outs.len() < DISTINCT_CAP_PER_THREAD {
                                        p.nt_outs.insert(out.out_hash);
                                    }
                                    if p.samples.len() < 2 {
                                        if let Some(s) = out.sample {
                                            p.samples.push(s);
                                        }
                                    }
                                }
                                for v in out.viols {
                                    *p.stats.0.entry("violating_runs").or_insert(0) += 1;
                                    if seen_sigs.insert(v.sig.clone()) {
                                        p.viols.push((ji, v));
                                    }
                                }
                            }
                        }
                        if let Some(c) = crumbs {
                            c.set(ti, u64::MAX);
                        }
                        p
                    })
                    .unwrap()
            })
            .collect();
        hs.into_iter().map(|h| h.join().expect("sim worker thread died")).collect()
    });
    let mut res = SimResult { runs: 0, events: 0, nontrivial_runs: 0, distinct_outputs: 0, distinct_nontrivial_outputs: 0, stats: Stats::default(), reported: vec![], violation_counts: BTreeMap::new(), samples: vec![], jobs: njobs };
    let mut outs: HashSet<u64> = HashSet::new();
    let mut nt: HashSet<u64> = HashSet::new();
    let mut all_v: Vec<(usize, Viol)> = vec![];
    for p in parts {
        res.runs += p.runs;
        res.events += p.events;
        res.nontrivial_runs += p.nontrivial;
        outs.extend(p.outs);
        nt.extend(p.nt_outs);
        res.stats.merge(&p.stats);
        all_v.extend(p.viols);
        for s in p.samples {
            if res.samples.len() < 4 {
                res.samples.push(s);
            }
        }
    }
    res.distinct_outputs = outs.len();
    res.distinct_nontrivial_outputs = nt.len();
    // smallest job index first: the simplest system showing each signature
    all_v.sort_by_key(|x| x.0);
    let mut seen: HashSet<String> = HashSet::new();
    for (ji, v) in all_v {
        *res.violation_counts.entry(v.sig.clone()).or_insert(0) += 1;
        if !seen.insert(v.sig.clone()) || res.reported.len() >= 40 {
            continue;
        }
        let Some(sys) = build(ji) else { continue };
        res.reported.push(Rep {
            signature: v.sig.clone(),
            summary: format!("{}: client {:?} server {:?} trace {:?} delay {}ns: {}", v.sig, sys.client_names, sys.server_names, sys.trace, sys.delay_ns, v.msg),
            replay: json!({"property": property, "engine": "E4", "system": sys.to_json(), "message": v.msg, "violation_signature": v.sig}),
        });
    }
    if res.samples.is_empty() {
        res.samples.push(json!("no non-trivial run recorded"));
    }
    res
}

pub fn coverage_json(r: &SimResult, rule: &str, exhaustive: bool, extra: Value) -> Value {
    let mut v = json!({
        "states": r.distinct_outputs,
        "transitions": r.events,
        "traces_validated_against_impl": r.runs,
        "samples": r.samples,
        "evaluations": r.runs,
        "distinct_nontrivial": r.distinct_nontrivial_outputs,
        "rule": rule,
        "exhaustive": exhaustive,
        "simulator_runs": r.runs,
        "events_monitored": r.events,
        "nontrivial_runs": r.nontrivial_runs,
        "distinct_output_traces": r.distinct_outputs,
        "distinct_output_counts_are_lower_bounds_above": DISTINCT_CAP_PER_THREAD,
        "violating_runs_by_signature": r.violation_counts.iter().map(|(k, v)| (k.clone(), json!(v))).collect::<serde_json::Map<String, Value>>(),
        "monitor_counters": r.stats.0.iter().map(|(k, v)| (k.to_string(), json!(v))).collect::<serde_json::Map<String, Value>>(),
    });
    if let (Some(o), Some(e)) = (v.as_object_mut(), extra.as_object()) {
        for (k, x) in e {
            o.insert(k.clone(), x.clone());
        }
    }
    v
}

pub fn hash_evs(evs: &[crate::sim::Ev]) -> u64 {
    use std::hash::{Hash, Hasher};
    let mut h = std::collections::hash_map::DefaultHasher::new();
    evs.hash(&mut h);
    h.finish()
}
