//! E1 — explicit-state breadth-first search whose transition function is the
//! real `Framework::trigger_events` (DESIGN 1.1, 1.2).
//!
//! One BFS per configuration, layered by depth (the first counterexample is a
//! shortest one, counts are reproducible). Inside a transition the RNG choice
//! tree is enumerated statelessly: replay a prefix of answers, default
//! afterwards, read how many choice points were hit, branch on every later one.
use crate::clock::{self, VT};
use crate::rng::{self, ChoiceRng};
use crate::types::*;
use maybenot::event::TriggerEvent;
use maybenot::{Machine, VerifSnapshot, VerifStep};
use serde_json::{json, Value};
use std::collections::{BTreeMap, HashSet};
use std::hash::{Hash, Hasher};
use std::panic::{catch_unwind, AssertUnwindSafe};
use std::sync::atomic::{AtomicBool, AtomicU64, AtomicUsize, Ordering};
use std::sync::Arc;

#[derive(Clone)]
pub struct Alphabet {
    pub batches: Vec<Vec<TriggerEvent>>,
    pub deltas: Vec<i64>,
}

#[derive(Clone)]
pub struct Opts {
    pub depth: usize,
    pub n32: u8,
    pub n64: u8,
    /// explicit u64 menu (overrides n64), e.g. central words only
    pub m64_words: Option<Vec<u64>>,
    /// choice points below this index are enumerated completely
    pub full_positions: usize,
    /// beyond `full_positions`, scripts with at most this many non-default answers
    pub max_deviations: usize,
    pub max_states_per_cfg: usize,
    /// run every transition a second time on a clone and require identical results
    pub check_clone: bool,
    /// re-execute every k-th new state's history on a fresh instance (0 = never)
    pub fresh_every: usize,
    /// a panic inside the subject is a violation of the property under check
    pub panic_is_violation: bool,
    pub threads: usize,
    /// wall-clock budget in seconds for the whole exploration (0 = none)
    pub wall_budget_s: u64,
    /// set by `explore_all`: wall-clock deadline (ms since the epoch) after which workers stop (0 = none)
    pub deadline_ms: u64,
}
pub fn now_ms() -> u64 {
    std::time::SystemTime::now().duration_since(std::time::UNIX_EPOCH).map(|d| d.as_millis() as u64).unwrap_or(0)
}
impl Default for Opts {
    fn default() -> Self {
        Opts {
            depth: 3,
            n32: 2,
            n64: 2,
            m64_words: None,
            full_positions: 6,
            max_deviations: 2,
            max_states_per_cfg: 400_000,
            check_clone: false,
            fresh_every: 0,
            panic_is_violation: false,
            threads: 16,
            wall_budget_s: 0,
            deadline_ms: 0,
        }
    }
}

/// What an observer sees of one executed call.
pub struct CallCtx<'a> {
    pub cfg: &'a Cfg,
    pub batch: &'a [TriggerEvent],
    pub prev_now: u64,
    pub now: u64,
    pub script: &'a [u8],
    pub draws: usize,
    pub actions: &'a [Act],
    pub steps: &'a [VerifStep],
    pub before: &'a VerifSnapshot<VT>,
    pub after: &'a VerifSnapshot<VT>,
    pub fw_after: &'a Fw,
}

#[derive(Default, Clone)]
pub struct Stats(pub BTreeMap<&'static str, u64>);
impl Stats {
    pub fn bump(&mut self, k: &'static str) {
        *self.0.entry(k).or_insert(0) += 1;
    }
    pub fn add(&mut self, k: &'static str, n: u64) {
        *self.0.entry(k).or_insert(0) += n;
    }
    pub fn max(&mut self, k: &'static str, n: u64) {
        let e = self.0.entry(k).or_insert(0);
        if n > *e {
            *e = n;
        }
    }
    pub fn merge(&mut self, o: &Stats) {
        for (k, v) in &o.0 {
            if k.starts_with("max_") {
                self.max(k, *v);
            } else {
                self.add(k, *v);
            }
        }
    }
}

/// A property oracle riding along the search. Its state is part of the
/// product state, so two histories merge only if the implementation *and* the
/// observer agree they are the same.
pub trait Observer: Clone {
    /// called once per (configuration, construction script) after `Framework::new`
    fn init(cfg: &Cfg, init_script: &[u8], fw: &Fw) -> Result<Self, String>;
    /// Judge one call. `Ok(true)`: the property's mechanism was engaged
    /// (non-trivial); `Err`: violation.
    fn on_call(&mut self, c: &CallCtx<'_>, stats: &mut Stats) -> Result<bool, String>;
    /// observer state, appended to the product state key
    fn key(&self, out: &mut String);
}

#[derive(Clone, Debug)]
pub struct Op {
    pub batch: Vec<TriggerEvent>,
    pub now: u64,
    pub script: Vec<u8>,
}

#[derive(Clone, Debug)]
pub struct Violation {
    pub cfg_index: usize,
    pub cfg_label: String,
    pub init_script: Vec<u8>,
    pub ops: Vec<Op>,
    pub message: String,
    pub kind: String,
}

pub fn replay_json(property: &str, cfg: &Cfg, v: &Violation, o: &Opts) -> Value {
    json!({
        "property": property,
        "engine": "E1",
        "kind": v.kind,
        "message": v.message,
        "config": {
            "label": cfg.label,
            "machines": cfg.machines.iter().map(|m| m.serialize()).collect::<Vec<_>>(),
            "machines_debug": cfg.machines.iter().map(|m| format!("{:?}", m)).collect::<Vec<_>>(),
            "max_padding_frac": cfg.pad_frac,
            "max_blocking_frac": cfg.blk_frac,
            "start_us": cfg.start,
        },
        "rng_menu": { "m32": rng_menu32(o), "m64": rng_menu64(o) },
        "init_script": v.init_script,
        "ops": v.ops.iter().map(|op| json!({"batch": batch_to_strings(&op.batch), "now_us": op.now, "script": op.script})).collect::<Vec<_>>(),
    })
}
pub fn rng_menu32(o: &Opts) -> Vec<u32> {
    rng::M32[..o.n32 as usize].to_vec()
}
pub fn rng_menu64(o: &Opts) -> Vec<u64> {
    match &o.m64_words {
        Some(w) => w.clone(),
        None => rng::M64[..o.n64 as usize].to_vec(),
    }
}
pub fn apply_menu(o: &Opts) {
    rng::set_menu_words(&rng_menu32(o), &rng_menu64(o));
}

#[derive(Default)]
pub struct CfgResult {
    pub states: u64,
    pub transitions: u64,
    pub nontrivial_states: u64,
    pub engaged_transitions: u64,
    pub depth_completed: usize,
    pub capped: bool,
    pub truncated_scripts: u64,
    pub subject_panics: u64,
    pub clone_checks: u64,
    pub fresh_checks: u64,
    pub violation: Option<Violation>,
    pub stats: Stats,
    pub sample: Option<Value>,
    pub sample_len: usize,
    pub outcomes: HashSet<u64>,
}

pub fn hash128(s: &str) -> u128 {
    let mut h1 = std::collections::hash_map::DefaultHasher::new();
    s.hash(&mut h1);
    let mut h2 = std::collections::hash_map::DefaultHasher::new();
    0x9E37_79B9_7F4A_7C15u64.hash(&mut h2);
    s.hash(&mut h2);
    ((h1.finish() as u128) << 64) | h2.finish() as u128
}
fn hash64<T: Hash>(t: &T) -> u64 {
    let mut h = std::collections::hash_map::DefaultHasher::new();
    t.hash(&mut h);
    h.finish()
}

/// Canonical form of the implementation state: the whole derived `Debug` of a
/// clone that has been given one empty call at the same time (clears per-call
/// scratch). Any field added to `Framework` is part of the key automatically.
pub fn fw_key_string(f: &Fw, now: u64) -> String {
    let mut cl = f.clone();
    rng::set_script(&[]);
    let _ = cl.trigger_events(&[], VT(now)).count();
    format!("{:?}", cl)
}

thread_local! {
    pub static LAST_PANIC: std::cell::RefCell<String> = std::cell::RefCell::new(String::new());
}
pub fn install_quiet_panic_hook() {
    std::panic::set_hook(Box::new(|info| {
        let msg = format!("{}", info);
        LAST_PANIC.with(|p| *p.borrow_mut() = msg);
    }));
}
pub fn last_panic() -> String {
    LAST_PANIC.with(|p| p.borrow().clone())
}

pub fn new_fw(cfg: &Cfg, ms: &Ms, init_script: &[u8]) -> Result<Fw, String> {
    rng::set_script(init_script);
    match catch_unwind(AssertUnwindSafe(|| Fw::new(ms.clone(), cfg.pad_frac, cfg.blk_frac, VT(cfg.start), ChoiceRng))) {
        Ok(Ok(f)) => Ok(f),
        Ok(Err(e)) => Err(format!("Framework::new returned Err({:?})", e)),
        Err(_) => Err(format!("Framework::new panicked: {}", last_panic())),
    }
}

/// Execute one call on `f` with the given script. Returns (actions, draws) or the panic message.
pub fn run_call(f: &mut Fw, batch: &[TriggerEvent], now: u64, script: &[u8]) -> Result<(Vec<Act>, usize), String> {
    rng::set_script(script);
    let r = catch_unwind(AssertUnwindSafe(|| {
        let a: Vec<Act> = f.trigger_events(batch, VT(now)).map(conv).collect();
        a
    }));
    let nd = rng::draws();
    match r {
        Ok(a) => Ok((a, nd)),
        Err(_) => Err(last_panic()),
    }
}

/// Enumerate all construction scripts (limit draws in `Framework::new`).
pub fn init_scripts(cfg: &Cfg, ms: &Ms) -> Result<Vec<Vec<u8>>, String> {
    let mut out = vec![];
    let mut stack: Vec<Vec<u8>> = vec![vec![]];
    while let Some(prefix) = stack.pop() {
        new_fw(cfg, ms, &prefix)?;
        let nd = rng::draws();
        for i in prefix.len()..nd {
            for alt in 1..rng::arity(i) {
                let mut p = prefix.clone();
                p.resize(i, 0);
                p.push(alt);
                stack.push(p);
            }
        }
        out.push(prefix);
    }
    out.sort();
    Ok(out)
}

struct Node {
    parent: u32,
    batch: u16,
    now: u64,
    script: Box<[u8]>,
}

fn history(nodes: &[Node], mut id: u32, alpha: &Alphabet) -> Vec<Op> {
    let mut ops = vec![];
    while id != u32::MAX {
        let n = &nodes[id as usize];
        if n.parent == u32::MAX && n.batch == u16::MAX {
            break;
        }
        ops.push(Op { batch: alpha.batches[n.batch as usize].clone(), now: n.now, script: n.script.to_vec() });
        id = n.parent;
    }
    ops.reverse();
    ops
}

/// Explore one configuration with observer `O`.
pub fn explore_cfg<O: Observer>(ci: usize, cfg: &Cfg, alpha: &Alphabet, o: &Opts, stop: &AtomicBool) -> CfgResult {
    let mut res = CfgResult::default();
    apply_menu(o);
    let ms = Ms(Arc::new(cfg.machines.clone()));
    let inits = match init_scripts(cfg, &ms) {
        Ok(v) => v,
        Err(e) => {
            res.violation = Some(Violation { cfg_index: ci, cfg_label: cfg.label.clone(), init_script: vec![], ops: vec![], message: e, kind: "construction".into() });
            return res;
        }
    };
    let mut min_depth_completed = usize::MAX;
    for is in inits {
        let f0 = match new_fw(cfg, &ms, &is) {
            Ok(f) => f,
            Err(e) => {
                res.violation = Some(Violation { cfg_index: ci, cfg_label: cfg.label.clone(), init_script: is, ops: vec![], message: e, kind: "construction".into() });
                return res;
            }
        };
        let obs0 = match O::init(cfg, &is, &f0) {
            Ok(o) => o,
            Err(e) => {
                res.violation = Some(Violation { cfg_index: ci, cfg_label: cfg.label.clone(), init_script: is, ops: vec![], message: e, kind: "construction".into() });
                return res;
            }
        };
        let mut nodes: Vec<Node> = vec![Node { parent: u32::MAX, batch: u16::MAX, now: cfg.start, script: Box::new([]) }];
        let mut seen: HashSet<u128> = HashSet::new();
        {
            let mut k = fw_key_string(&f0, cfg.start);
            obs0.key(&mut k);
            seen.insert(hash128(&k));
            res.states += 1;
        }
        let mut frontier: Vec<(Fw, O, u64, u32)> = vec![(f0, obs0, cfg.start, 0)];
        let mut depth_done = 0usize;
        'layers: for _d in 0..o.depth {
            let mut next: Vec<(Fw, O, u64, u32)> = vec![];
            for (f, obs, t, nid) in &frontier {
                if stop.load(Ordering::Relaxed) {
                    res.capped = true;
                    break 'layers;
                }
                let before = f.verif_snapshot();
                for (bi, b) in alpha.batches.iter().enumerate() {
                    for dl in &alpha.deltas {
                        let nt = clock::step(*t, *dl);
                        let mut stack: Vec<Vec<u8>> = vec![vec![]];
                        while let Some(prefix) = stack.pop() {
                            let mut g = f.clone();
                            if let Some(fc) = crate::supervise::global_fine() {
                                let mut ops = history(&nodes, *nid, alpha);
                                ops.push(Op { batch: b.clone(), now: nt, script: prefix.clone() });
                                let v = Violation { cfg_index: ci, cfg_label: cfg.label.clone(), init_script: is.clone(), ops, message: "worker died (abort or hang) while executing the last operation".into(), kind: "crash".into() };
                                fc.write(&replay_json("?", cfg, &v, o));
                            }
                            let r = run_call(&mut g, b, nt, &prefix);
                            res.transitions += 1;
                            if res.transitions & 0xFFFF == 0 {
                                crate::supervise::beat();
                                if o.deadline_ms > 0 && now_ms() > o.deadline_ms {
                                    stop.store(true, Ordering::Relaxed);
                                }
                            }
                            let mk_violation = |msg: String, kind: &str, nodes: &[Node]| -> Violation {
                                let mut ops = history(nodes, *nid, alpha);
                                ops.push(Op { batch: b.clone(), now: nt, script: prefix.clone() });
                                Violation { cfg_index: ci, cfg_label: cfg.label.clone(), init_script: is.clone(), ops, message: msg, kind: kind.into() }
                            };
                            let (acts, nd) = match r {
                                Ok(x) => x,
                                Err(pmsg) => {
                                    res.subject_panics += 1;
                                    // alternatives at choice points reached before the panic still count
                                    let nd = rng::draws().min(rng::DRAW_CAP);
                                    if nd < 64 {
                                        push_alternatives(&mut stack, &prefix, nd, o, &mut res.truncated_scripts);
                                    }
                                    if o.panic_is_violation {
                                        res.violation = Some(mk_violation(format!("subject panicked: {}", pmsg), "panic", &nodes));
                                        return res;
                                    }
                                    continue;
                                }
                            };
                            push_alternatives(&mut stack, &prefix, nd, o, &mut res.truncated_scripts);
                            let after = g.verif_snapshot();
                            let mut obs2 = obs.clone();
                            let ctx = CallCtx {
                                cfg,
                                batch: b,
                                prev_now: *t,
                                now: nt,
                                script: &prefix,
                                draws: nd,
                                actions: &acts,
                                steps: g.verif_steps(),
                                before: &before,
                                after: &after,
                                fw_after: &g,
                            };
                            let engaged = match obs2.on_call(&ctx, &mut res.stats) {
                                Ok(e) => e,
                                Err(msg) => {
                                    res.violation = Some(mk_violation(msg, "oracle", &nodes));
                                    return res;
                                }
                            };
                            if engaged {
                                res.engaged_transitions += 1;
                            }
                            res.outcomes.insert(hash64(&acts));
                            let mut k = fw_key_string(&g, nt);
                            if o.check_clone && res.transitions % 8 == 0 {
                                // an instance and its clone, fed identically, agree
                                let mut g2 = f.clone();
                                let r2 = run_call(&mut g2, b, nt, &prefix);
                                res.clone_checks += 1;
                                let same = match &r2 {
                                    Ok((a2, nd2)) => *a2 == acts && *nd2 == nd && fw_key_string(&g2, nt) == k,
                                    Err(_) => false,
                                };
                                if !same {
                                    res.violation = Some(mk_violation(format!("clone fed the same call diverged: first {:?}, second {:?}", acts, r2), "clone-determinism", &nodes));
                                    return res;
                                }
                            }
                            obs2.key(&mut k);
                            let hk = hash128(&k);
                            if seen.insert(hk) {
                                res.states += 1;
                                if engaged {
                                    res.nontrivial_states += 1;
                                }
                                let id = nodes.len() as u32;
                                nodes.push(Node { parent: *nid, batch: bi as u16, now: nt, script: prefix.clone().into_boxed_slice() });
                                if o.fresh_every > 0 && (res.states as usize) % o.fresh_every == 0 {
                                    // state reached by continuing == state reached from the initial state
                                    res.fresh_checks += 1;
                                    let ops = history(&nodes, id, alpha);
                                    match replay_ops(cfg, &ms, &is, &ops) {
                                        Ok((ff, last)) => {
                                            if fw_key_string(&ff, nt) != fw_key_string(&g, nt) || last != acts {
                                                res.violation = Some(mk_violation("history replayed into a fresh instance reached a different state or returned different actions".into(), "fresh-instance", &nodes));
                                                return res;
                                            }
                                        }
                                        Err(e) => {
                                            res.violation = Some(mk_violation(format!("history replayed into a fresh instance failed: {}", e), "fresh-instance", &nodes));
                                            return res;
                                        }
                                    }
                                }
                                if engaged && !acts.is_empty() && _d + 1 > res.sample_len {
                                    res.sample_len = _d + 1;
                                    let ops = history(&nodes, id, alpha);
                                    res.sample = Some(json!({
                                        "config": cfg.label,
                                        "history": ops.iter().map(|op| json!({"batch": batch_to_strings(&op.batch), "now_us": op.now, "rng_script": op.script})).collect::<Vec<_>>(),
                                        "last_actions": format!("{:?}", acts),
                                    }));
                                }
                                next.push((g, obs2, nt, id));
                                if nodes.len() > o.max_states_per_cfg {
                                    res.capped = true;
                                    break 'layers;
                                }
                            }
                        }
                    }
                }
            }
            depth_done += 1;
            frontier = next;
            if frontier.is_empty() {
                depth_done = o.depth;
                break;
            }
        }
        min_depth_completed = min_depth_completed.min(depth_done);
    }
    res.depth_completed = if min_depth_completed == usize::MAX { 0 } else { min_depth_completed };
    res
}

fn push_alternatives(stack: &mut Vec<Vec<u8>>, prefix: &[u8], nd: usize, o: &Opts, truncated: &mut u64) {
    for i in prefix.len()..nd {
        let dev = prefix.iter().filter(|x| **x != 0).count();
        if i >= o.full_positions && dev + 1 > o.max_deviations {
            *truncated += (rng::arity(i) - 1) as u64;
            continue;
        }
        for alt in 1..rng::arity(i) {
            let mut p = prefix.to_vec();
            p.resize(i, 0);
            p.push(alt);
            stack.push(p);
        }
    }
}

/// Straight-line re-execution of a history on a fresh instance.
pub fn replay_ops(cfg: &Cfg, ms: &Ms, init_script: &[u8], ops: &[Op]) -> Result<(Fw, Vec<Act>), String> {
    let mut f = new_fw(cfg, ms, init_script)?;
    let mut last = vec![];
    for op in ops {
        let (a, _) = run_call(&mut f, &op.batch, op.now, &op.script).map_err(|e| format!("panic: {}", e))?;
        last = a;
    }
    Ok((f, last))
}

/// Re-execute a history with observer `O` attached; returns the first oracle failure.
pub fn replay_with_observer<O: Observer>(cfg: &Cfg, init_script: &[u8], ops: &[Op], o: &Opts) -> Result<Vec<Vec<Act>>, String> {
    apply_menu(o);
    let ms = Ms(Arc::new(cfg.machines.clone()));
    let mut f = new_fw(cfg, &ms, init_script)?;
    let mut obs = O::init(cfg, init_script, &f)?;
    let mut t = cfg.start;
    let mut all = vec![];
    let mut stats = Stats::default();
    for op in ops {
        let before = f.verif_snapshot();
        let (acts, nd) = run_call(&mut f, &op.batch, op.now, &op.script).map_err(|e| format!("subject panicked: {}", e))?;
        let after = f.verif_snapshot();
        let ctx = CallCtx { cfg, batch: &op.batch, prev_now: t, now: op.now, script: &op.script, draws: nd, actions: &acts, steps: f.verif_steps(), before: &before, after: &after, fw_after: &f };
        obs.on_call(&ctx, &mut stats)?;
        t = op.now;
        all.push(acts);
    }
    Ok(all)
}

/// Aggregated result of a parallel exploration over many configurations.
#[derive(Default)]
pub struct RunResult {
    pub configs: usize,
    pub configs_done: usize,
    pub states: u64,
    pub transitions: u64,
    pub nontrivial_states: u64,
    pub engaged_transitions: u64,
    pub min_depth_completed: usize,
    pub capped_configs: usize,
    pub truncated_scripts: u64,
    pub subject_panics: u64,
    pub clone_checks: u64,
    pub fresh_checks: u64,
    pub distinct_outcomes: usize,
    pub violations: Vec<Violation>,
    pub stats: Stats,
    pub samples: Vec<Value>,
    pub wall_capped: bool,
}

pub static HEARTBEAT: AtomicU64 = AtomicU64::new(0);

/// Explore all configurations, dynamically distributed over threads. Stops at
/// the first `max_violations` violations (each configuration reports at most one).
pub fn explore_all<O: Observer>(cfgs: &[Cfg], alpha_for: &(dyn Fn(&Cfg) -> Alphabet + Sync), o: &Opts, max_violations: usize, unit_base: u64, only_unit: Option<u64>) -> RunResult {
    let crumbs = crate::supervise::global_crumbs();
    let next = AtomicUsize::new(0);
    let stop = AtomicBool::new(false);
    let nviol = AtomicUsize::new(0);
    let t0 = std::time::Instant::now();
    let mut o2 = o.clone();
    if o.wall_budget_s > 0 {
        o2.deadline_ms = now_ms() + o.wall_budget_s * 1000;
    }
    let o = &o2;
    let results: Vec<Vec<(usize, CfgResult)>> = std::thread::scope(|sc| {
        let hs: Vec<_> = (0..o.threads.max(1))
            .map(|ti| {
                let next = &next;
                let stop = &stop;
                let nviol = &nviol;
                std::thread::Builder::new()
                    .stack_size(64 << 20)
                    .spawn_scoped(sc, move || {
                        let mut out = vec![];
                        loop {
                            if stop.load(Ordering::Relaxed) {
                                break;
                            }
                            let i = next.fetch_add(1, Ordering::Relaxed);
                            if i >= cfgs.len() {
                                break;
                            }
                            if let Some(u) = only_unit {
                                if u != unit_base + i as u64 {
                                    continue;
                                }
                            }
                            if let Some(c) = crumbs {
                                c.set(ti, unit_base + i as u64);
                            }
                            let alpha = alpha_for(&cfgs[i]);
                            let r = explore_cfg::<O>(i, &cfgs[i], &alpha, o, stop);
                            HEARTBEAT.fetch_add(1, Ordering::Relaxed);
                            if r.violation.is_some() && nviol.fetch_add(1, Ordering::Relaxed) + 1 >= max_violations {
                                stop.store(true, Ordering::Relaxed);
                            }
                            if o.wall_budget_s > 0 && t0.elapsed().as_secs() >= o.wall_budget_s {
                                stop.store(true, Ordering::Relaxed);
                            }
                            out.push((i, r));
                        }
                        if let Some(c) = crumbs {
                            c.set(ti, u64::MAX);
                        }
                        out
                    })
                    .unwrap()
            })
            .collect();
        hs.into_iter().map(|h| h.join().expect("explorer thread died")).collect()
    });
    let mut rr = RunResult { configs: cfgs.len(), min_depth_completed: usize::MAX, ..Default::default() };
    let mut outcomes: HashSet<u64> = HashSet::new();
    let mut all: Vec<(usize, CfgResult)> = results.into_iter().flatten().collect();
    all.sort_by_key(|x| x.0);
    for (_, r) in all {
        rr.configs_done += 1;
        rr.states += r.states;
        rr.transitions += r.transitions;
        rr.nontrivial_states += r.nontrivial_states;
        rr.engaged_transitions += r.engaged_transitions;
        rr.min_depth_completed = rr.min_depth_completed.min(r.depth_completed);
        if r.capped {
            rr.capped_configs += 1;
        }
        rr.truncated_scripts += r.truncated_scripts;
        rr.subject_panics += r.subject_panics;
        rr.clone_checks += r.clone_checks;
        rr.fresh_checks += r.fresh_checks;
        rr.stats.merge(&r.stats);
        outcomes.extend(r.outcomes);
        if let Some(s) = r.sample {
            if rr.samples.len() < 4 && r.sample_len >= o.depth.min(2) {
                rr.samples.push(s);
            }
        }
        if let Some(v) = r.violation {
            rr.violations.push(v);
        }
    }
    if rr.min_depth_completed == usize::MAX {
        rr.min_depth_completed = 0;
    }
    rr.distinct_outcomes = outcomes.len();
    rr.wall_capped = rr.configs_done < rr.configs || (o.wall_budget_s > 0 && t0.elapsed().as_secs() >= o.wall_budget_s && rr.capped_configs > 0);
    rr
}

pub fn machines_from_strings(v: &[String]) -> Result<Vec<Machine>, String> {
    use std::str::FromStr;
    v.iter().map(|s| Machine::from_str(s).map_err(|e| format!("{:?}", e))).collect()
}


/// A long pseudo-random walk (labelled *sampled*): `steps` calls with batches of 1-3 events, random time steps
/// and random RNG answers, judged by observer `O` at every call. Returns (calls, engaged calls, failure).
pub fn random_walk<O: Observer>(ci: usize, cfg: &Cfg, alpha: &Alphabet, o: &Opts, seed: u64, steps: usize) -> (u64, u64, Option<Violation>) {
    use rand_core::{RngCore, SeedableRng};
    apply_menu(o);
    let mut r = rand_xoshiro::Xoshiro256StarStar::seed_from_u64(seed);
    let ms = Ms(Arc::new(cfg.machines.clone()));
    let init: Vec<u8> = (0..8).map(|_| (r.next_u32() % 2) as u8).collect();
    let viol = |ops: &Vec<Op>, init: &Vec<u8>, msg: String, kind: &str| Violation { cfg_index: ci, cfg_label: cfg.label.clone(), init_script: init.clone(), ops: ops.clone(), message: msg, kind: kind.into() };
    let mut ops: Vec<Op> = vec![];
    let mut f = match new_fw(cfg, &ms, &init) {
        Ok(f) => f,
        Err(e) => return (0, 0, Some(viol(&ops, &init, e, "construction"))),
    };
    // the construction may have consumed fewer draws than the script is long; trim for the replay file
    let init: Vec<u8> = init[..rng::draws().min(init.len())].to_vec();
    let mut obs = match O::init(cfg, &init, &f) {
        Ok(x) => x,
        Err(e) => return (0, 0, Some(viol(&ops, &init, e, "construction"))),
    };
    let singles: Vec<&Vec<TriggerEvent>> = alpha.batches.iter().filter(|b| b.len() == 1).collect();
    let mut t = cfg.start;
    let (mut calls, mut engaged) = (0u64, 0u64);
    let mut stats = Stats::default();
    for _ in 0..steps {
        let mut batch: Vec<TriggerEvent> = vec![];
        for _ in 0..(1 + r.next_u32() % 3) {
            if !singles.is_empty() {
                batch.extend(singles[(r.next_u32() as usize) % singles.len()].iter().cloned());
            }
        }
        let dl = alpha.deltas[(r.next_u32() as usize) % alpha.deltas.len()];
        let nt = clock::step(t, dl);
        // random answers within the smaller of the two menu sizes, so that every answer is in range
        let ar = o.n32.min(rng_menu64(o).len() as u8).max(1) as u32;
        let script: Vec<u8> = (0..rng::DRAW_CAP.min(10)).map(|_| (r.next_u32() % ar) as u8).collect();
        let before = f.verif_snapshot();
        calls += 1;
        ops.push(Op { batch: batch.clone(), now: nt, script: script.clone() });
        let (acts, nd) = match run_call(&mut f, &batch, nt, &script) {
            Ok(x) => x,
            Err(e) => {
                if o.panic_is_violation {
                    return (calls, engaged, Some(viol(&ops, &init, format!("subject panicked: {e}"), "panic")));
                }
                return (calls, engaged, None);
            }
        };
        let after = f.verif_snapshot();
        let ctx = CallCtx { cfg, batch: &batch, prev_now: t, now: nt, script: &script, draws: nd, actions: &acts, steps: f.verif_steps(), before: &before, after: &after, fw_after: &f };
        match obs.on_call(&ctx, &mut stats) {
            Ok(e) => {
                if e {
                    engaged += 1;
                }
            }
            Err(msg) => return (calls, engaged, Some(viol(&ops, &init, msg, "oracle"))),
        }
        t = nt;
    }
    (calls, engaged, None)
}
