//! Machine families (DESIGN section 2): machines built from a small gadget
//! library through the public API. A family is a full Cartesian product of a
//! template's parameter grid (optionally strided for the quick tier; the
//! stride is reported, the enumeration inside the selected set is complete).
use maybenot::action::{Action, Timer};
use maybenot::constants::{STATE_END, STATE_SIGNAL};
use maybenot::counter::{Counter, Operation};
use maybenot::dist::{Dist, DistType};
use maybenot::event::Event;
use maybenot::state::{State, Trans};
use maybenot::Machine;
use enum_map::{enum_map, EnumMap};

pub const END: usize = STATE_END;
pub const SIG: usize = STATE_SIGNAL;

/// constant distribution
pub fn c(v: f64) -> Dist {
    Dist::new(DistType::Uniform { low: v, high: v }, 0.0, 0.0)
}
/// uniform [l, h)
pub fn u(l: f64, h: f64) -> Dist {
    Dist::new(DistType::Uniform { low: l, high: h }, 0.0, 0.0)
}

pub type TransSpec<'a> = &'a [(Event, &'a [(usize, f32)])];

pub fn tmap(spec: TransSpec<'_>) -> EnumMap<Event, Vec<Trans>> {
    let mut t: EnumMap<Event, Vec<Trans>> = enum_map! { _ => vec![] };
    for (ev, v) in spec {
        t[*ev] = v.iter().map(|(s, p)| Trans(*s, *p)).collect();
    }
    t
}
pub fn st(spec: TransSpec<'_>, action: Option<Action>, counter: (Option<Counter>, Option<Counter>)) -> State {
    let mut s = State::new(tmap(spec));
    s.action = action;
    s.counter = counter;
    s
}
pub fn st_map(t: EnumMap<Event, Vec<Trans>>, action: Option<Action>, counter: (Option<Counter>, Option<Counter>)) -> State {
    let mut s = State::new(t);
    s.action = action;
    s.counter = counter;
    s
}
/// (allowed_padding_packets, max_padding_frac, allowed_blocked_microsec, max_blocking_frac)
pub type Budget = (u64, f64, u64, f64);
pub const NOBUDGET: Budget = (0, 0.0, 0, 0.0);
pub fn mk(b: Budget, states: Vec<State>) -> Machine {
    Machine::new(b.0, b.1, b.2, b.3, states).expect("family machine must validate")
}

pub fn pad(bypass: bool, replace: bool, timeout: f64, limit: Option<Dist>) -> Action {
    Action::SendPadding { bypass, replace, timeout: c(timeout), limit }
}
pub fn blk(bypass: bool, replace: bool, timeout: f64, duration: f64, limit: Option<Dist>) -> Action {
    Action::BlockOutgoing { bypass, replace, timeout: c(timeout), duration: c(duration), limit }
}
pub fn upd(replace: bool, duration: f64, limit: Option<Dist>) -> Action {
    Action::UpdateTimer { replace, duration: c(duration), limit }
}
pub fn cancel(t: Timer) -> Action {
    Action::Cancel { timer: t }
}
pub fn inc() -> Counter {
    Counter::new(Operation::Increment)
}
pub fn dec() -> Counter {
    Counter::new(Operation::Decrement)
}
pub fn set(v: f64) -> Counter {
    Counter::new_dist(Operation::Set, c(v))
}

/// The action menu of the grammar. Timeouts / durations are pairwise different
/// so that an action identifies the state it came from.
pub fn actions_menu() -> Vec<Option<Action>> {
    vec![
        None,
        Some(cancel(Timer::All)),
        Some(cancel(Timer::Action)),
        Some(cancel(Timer::Internal)),
        Some(pad(false, false, 1.0, None)),
        Some(pad(true, false, 2.0, Some(c(1.0)))),
        Some(pad(false, true, 3.0, Some(c(0.0)))),
        Some(pad(true, true, 4.0, Some(u(0.0, 2.0)))),
        Some(pad(false, false, 5.0, Some(c(2.0)))),
        Some(blk(false, false, 1.0, 3.0, None)),
        Some(blk(true, true, 2.0, 4.0, Some(c(1.0)))),
        Some(blk(false, true, 3.0, 5.0, Some(u(0.0, 2.0)))),
        Some(blk(true, false, 4.0, 6.0, Some(c(2.0)))),
        Some(upd(false, 2.0, None)),
        Some(upd(true, 5.0, Some(c(2.0)))),
        Some(upd(false, 7.0, Some(u(0.0, 2.0)))),
        Some(upd(true, 8.0, Some(c(0.0)))),
        // boundary value 0 in every timeout / duration position
        Some(pad(true, true, 0.0, None)),
        Some(blk(false, true, 0.0, 0.0, None)),
        Some(upd(true, 0.0, None)),
        Some(upd(false, 0.0, Some(c(1.0)))),
    ]
}

pub fn counters_menu() -> Vec<(Option<Counter>, Option<Counter>)> {
    vec![
        (None, None),
        (Some(inc()), None),
        (Some(dec()), None),
        (None, Some(dec())),
        (Some(set(2.0)), Some(Counter::new(Operation::Set))),
        (Some(dec()), Some(dec())),
        (Some(Counter::new_copy(Operation::Decrement)), Some(Counter::new_copy(Operation::Set))),
        (Some(Counter::new_copy(Operation::Increment)), Some(inc())),
        (Some(Counter::new_dist(Operation::Increment, c(1.8e19))), Some(Counter::new_dist(Operation::Decrement, u(0.0, 2.0)))),
        (Some(Counter::new_dist(Operation::Set, c(1.8446744073709552e19))), Some(Counter::new_dist(Operation::Decrement, c(5.0)))),
    ]
}

/// Transition patterns for a state `me` in a two-state machine (`other` is the
/// other state). Chosen to engage every internal mechanism: self loops on
/// completions (limits), leave / re-enter, LimitReached / CounterZero / Signal
/// edges to states, END and SIGNAL, probabilistic splits.
pub fn patterns(me: usize, other: usize) -> Vec<EnumMap<Event, Vec<Trans>>> {
    use Event::*;
    vec![
        tmap(&[(NormalSent, &[(other, 1.0)]), (PaddingSent, &[(me, 1.0)]), (LimitReached, &[(other, 1.0)])]),
        tmap(&[(NormalSent, &[(me, 0.5), (other, 0.5)]), (CounterZero, &[(other, 1.0)]), (BlockingBegin, &[(me, 1.0)])]),
        tmap(&[(NormalSent, &[(me, 1.0)]), (PaddingSent, &[(SIG, 1.0)]), (LimitReached, &[(SIG, 1.0)]), (Signal, &[(other, 1.0)])]),
        tmap(&[(NormalRecv, &[(SIG, 1.0)]), (Signal, &[(SIG, 0.5), (other, 0.5)]), (CounterZero, &[(SIG, 1.0)]), (NormalSent, &[(other, 1.0)])]),
        tmap(&[(NormalSent, &[(me, 1.0)]), (TimerBegin, &[(me, 1.0)]), (TimerEnd, &[(other, 1.0)]), (LimitReached, &[(END, 1.0)]), (BlockingEnd, &[(END, 0.5)])]),
        tmap(&[(NormalSent, &[(other, 1.0)]), (CounterZero, &[(me, 1.0)]), (PaddingSent, &[(me, 1.0)]), (BlockingBegin, &[(me, 1.0)]), (TunnelRecv, &[(me, 1.0)])]),
        tmap(&[(NormalRecv, &[(me, 1.0)]), (PaddingSent, &[(other, 0.5)]), (CounterZero, &[(other, 0.5), (END, 0.5)]), (Signal, &[(me, 1.0)])]),
        tmap(&[(TunnelSent, &[(other, 0.25), (me, 0.5)]), (PaddingRecv, &[(me, 1.0)]), (TimerBegin, &[(other, 1.0)]), (LimitReached, &[(me, 1.0)])]),
    ]
}

pub const BUDGETS: [Budget; 4] = [(0, 0.0, 0, 0.0), (1, 0.5, 2, 0.5), (0, 0.5, 0, 0.25), (2, 1.0, 1000, 1.0)];

/// G2: two-state machines over the full action x counter x pattern menus.
/// `stride` selects every stride-th machine of the product (1 = all); the
/// budget rotates with the selected index.
pub fn g2(stride: usize, offset: usize) -> Vec<(String, Machine)> {
    let am = actions_menu();
    let cm = counters_menu();
    let np = patterns(0, 1).len();
    let mut out = vec![];
    let mut k = 0usize;
    for a0 in 0..am.len() {
        for a1 in 0..am.len() {
            for c0 in 0..cm.len() {
                for c1 in 0..cm.len() {
                    for p0 in 0..np {
                        for p1 in 0..np {
                            k += 1;
                            if (k + offset) % stride != 0 {
                                continue;
                            }
                            let s0 = st_map(patterns(0, 1)[p0].clone(), am[a0], cm[c0]);
                            let s1 = st_map(patterns(1, 0)[p1].clone(), am[a1], cm[c1]);
                            let b = BUDGETS[(k / stride) % BUDGETS.len()];
                            out.push((format!("g2[a{a0},a{a1},c{c0},c{c1},p{p0},p{p1},b{}]", (k / stride) % 4), mk(b, vec![s0, s1])));
                        }
                    }
                }
            }
        }
    }
    out
}

/// G1: one-state machines: action menu x counter menu x self/END/SIGNAL/none on
/// each of three driver events, plus self loops on the three completions.
pub fn g1(stride: usize) -> Vec<(String, Machine)> {
    use Event::*;
    let am = actions_menu();
    let cm = counters_menu();
    let targets: [Option<(usize, f32)>; 5] = [None, Some((0, 1.0)), Some((END, 1.0)), Some((SIG, 1.0)), Some((0, 0.5))];
    let mut out = vec![];
    let mut k = 0usize;
    for (ai, a) in am.iter().enumerate() {
        for (ci, cn) in cm.iter().enumerate() {
            for (t0i, t0) in targets.iter().enumerate() {
                for (t1i, t1) in targets.iter().enumerate() {
                    for (t2i, t2) in targets.iter().enumerate() {
                        k += 1;
                        if k % stride != 0 {
                            continue;
                        }
                        let mut t: EnumMap<Event, Vec<Trans>> = enum_map! { _ => vec![] };
                        if let Some((s, p)) = t0 {
                            t[NormalSent] = vec![Trans(*s, *p)];
                        }
                        if let Some((s, p)) = t1 {
                            t[LimitReached] = vec![Trans(*s, *p)];
                            t[BlockingEnd] = vec![Trans(*s, *p)];
                        }
                        if let Some((s, p)) = t2 {
                            t[CounterZero] = vec![Trans(*s, *p)];
                            t[Signal] = vec![Trans(*s, *p)];
                        }
                        t[PaddingSent] = vec![Trans(0, 1.0)];
                        t[BlockingBegin] = vec![Trans(0, 1.0)];
                        t[TimerBegin] = vec![Trans(0, 1.0)];
                        let b = BUDGETS[(k / stride) % BUDGETS.len()];
                        out.push((format!("g1[a{ai},c{ci},t{t0i}{t1i}{t2i}]"), mk(b, vec![st_map(t, *a, *cn)])));
                    }
                }
            }
        }
    }
    out
}

pub fn noop() -> Machine {
    mk(NOBUDGET, vec![st(&[], None, (None, None))])
}

// ---------------------------------------------------------------------------
// Probe families
// ---------------------------------------------------------------------------

/// P-PAD: padders with their own budget pair.
/// kind 0: one-state padder re-entering on NormalRecv / NormalSent / PaddingSent.
/// kind 1: two-state, start -> pad state on NormalRecv, pad state self loops on
///         PaddingSent and NormalSent, LimitReached -> start (limit 2).
/// kind 2: two-state probabilistic entry (1/2) on NormalRecv and TunnelRecv.
pub fn padder(kind: usize, allowed: u64, frac: f64) -> Machine {
    use Event::*;
    let b: Budget = (allowed, frac, 0, 0.0);
    match kind {
        0 => mk(b, vec![st(
            &[(NormalRecv, &[(0, 1.0)]), (NormalSent, &[(0, 1.0)]), (PaddingSent, &[(0, 1.0)])],
            Some(pad(false, false, 1.0, None)),
            (None, None),
        )]),
        1 => mk(b, vec![
            st(&[(NormalRecv, &[(1, 1.0)])], None, (None, None)),
            st(
                &[(PaddingSent, &[(1, 1.0)]), (NormalSent, &[(1, 1.0)]), (LimitReached, &[(0, 1.0)]), (NormalRecv, &[(1, 1.0)])],
                Some(pad(true, false, 2.0, Some(c(2.0)))),
                (None, None),
            ),
        ]),
        _ => mk(b, vec![
            st(&[(NormalRecv, &[(1, 0.5)]), (TunnelRecv, &[(1, 1.0)])], None, (None, None)),
            st(
                &[(PaddingSent, &[(1, 0.5), (0, 0.5)]), (NormalSent, &[(1, 1.0)]), (NormalRecv, &[(1, 1.0)]), (TunnelRecv, &[(0, 1.0)])],
                Some(pad(false, true, 3.0, None)),
                (None, None),
            ),
        ]),
    }
}

/// P-BLK: blockers with their own budget pair.
pub fn blocker(kind: usize, replace: bool, allowed: u64, frac: f64) -> Machine {
    use Event::*;
    let b: Budget = (0, 0.0, allowed, frac);
    match kind {
        0 => mk(b, vec![st(
            &[(NormalRecv, &[(0, 1.0)]), (BlockingBegin, &[(0, 1.0)]), (BlockingEnd, &[(0, 1.0)]), (NormalSent, &[(0, 1.0)])],
            Some(blk(false, replace, 1.0, 3.0, None)),
            (None, None),
        )]),
        _ => mk(b, vec![
            st(&[(NormalRecv, &[(1, 1.0)]), (BlockingEnd, &[(1, 1.0)])], None, (None, None)),
            st(
                &[(NormalRecv, &[(1, 1.0)]), (BlockingBegin, &[(1, 1.0)]), (LimitReached, &[(0, 1.0)]), (NormalSent, &[(0, 1.0)])],
                Some(blk(true, replace, 2.0, 4.0, Some(c(2.0)))),
                (None, None),
            ),
        ]),
    }
}

/// The three limitable action kinds with a given limit distribution.
pub fn limited_action(kind: usize, limit: Option<Dist>) -> Action {
    match kind {
        0 => pad(false, false, 1.0, limit),
        1 => blk(false, false, 1.0, 3.0, limit),
        _ => upd(false, 2.0, limit),
    }
}
pub fn limit_menu() -> Vec<(&'static str, Option<Dist>)> {
    vec![("none", None), ("c0", Some(c(0.0))), ("c1", Some(c(1.0))), ("c2", Some(c(2.0))), ("u02", Some(u(0.0, 2.0))), ("c3", Some(c(3.0)))]
}

/// P-LIM: limit probes. Budgets are generous so only the stay limit binds.
/// Shape 0: single limited state with self loops on all three completions and on NormalRecv
///          (self-transition trigger), LimitReached -> self.
/// Shape 1: start <-> worker: NormalRecv enters worker, NormalSent leaves, completions self-loop
///          in worker, LimitReached -> start.
/// Shape 2: CounterZero round trip: worker --TunnelRecv--> hop (decrements A to zero,
///          CounterZero -> worker), i.e. out of and back into the limited state in one event.
/// Shape 3: LimitReached -> END.
/// Shape 4: worker whose completions lead to *another* limited state (state change on completion).
/// Shape 5: completion self-loop with probability 1/2 (sometimes no transition at all).
pub fn limiter(shape: usize, kind: usize, limit: Option<Dist>) -> Machine {
    use Event::*;
    let b: Budget = (1000, 1.0, 1_000_000, 1.0);
    let act = Some(limited_action(kind, limit));
    match shape {
        0 => mk(b, vec![st(
            &[(PaddingSent, &[(0, 1.0)]), (BlockingBegin, &[(0, 1.0)]), (TimerBegin, &[(0, 1.0)]), (NormalRecv, &[(0, 1.0)]), (LimitReached, &[(0, 1.0)])],
            act,
            (None, None),
        )]),
        1 => mk(b, vec![
            st(&[(NormalRecv, &[(1, 1.0)])], None, (None, None)),
            st(
                &[(PaddingSent, &[(1, 1.0)]), (BlockingBegin, &[(1, 1.0)]), (TimerBegin, &[(1, 1.0)]), (NormalRecv, &[(1, 1.0)]), (NormalSent, &[(0, 1.0)]), (LimitReached, &[(0, 1.0)])],
                act,
                (None, None),
            ),
        ]),
        2 => mk(b, vec![
            st(
                &[(PaddingSent, &[(0, 1.0)]), (BlockingBegin, &[(0, 1.0)]), (TimerBegin, &[(0, 1.0)]), (TunnelRecv, &[(1, 1.0)]), (NormalRecv, &[(0, 1.0)]), (PaddingRecv, &[(2, 1.0)])],
                act,
                (Some(set(1.0)), None),
            ),
            // hop: decrement A (1 -> 0) raises CounterZero, which returns to the worker
            st(&[(CounterZero, &[(0, 1.0)]), (NormalRecv, &[(0, 1.0)])], None, (Some(dec()), None)),
            // completion-driven round trip: PaddingSent/BlockingBegin/TimerBegin in state 2 go to hop
            st(
                &[(PaddingSent, &[(1, 1.0)]), (BlockingBegin, &[(1, 1.0)]), (TimerBegin, &[(1, 1.0)]), (NormalRecv, &[(0, 1.0)])],
                act,
                (Some(set(1.0)), None),
            ),
        ]),
        3 => mk(b, vec![st(
            &[(PaddingSent, &[(0, 1.0)]), (BlockingBegin, &[(0, 1.0)]), (TimerBegin, &[(0, 1.0)]), (NormalRecv, &[(0, 1.0)]), (LimitReached, &[(END, 1.0)])],
            act,
            (None, None),
        )]),
        4 => mk(b, vec![
            st(
                &[(PaddingSent, &[(1, 1.0)]), (BlockingBegin, &[(1, 1.0)]), (TimerBegin, &[(1, 1.0)]), (NormalRecv, &[(0, 1.0)])],
                act,
                (None, None),
            ),
            st(
                &[(PaddingSent, &[(1, 1.0)]), (BlockingBegin, &[(1, 1.0)]), (TimerBegin, &[(1, 1.0)]), (NormalRecv, &[(0, 1.0)]), (LimitReached, &[(0, 1.0)])],
                Some(limited_action((kind + 1) % 3, Some(c(1.0)))),
                (None, None),
            ),
        ]),
        _ => mk(b, vec![st(
            &[(PaddingSent, &[(0, 0.5)]), (BlockingBegin, &[(0, 0.5)]), (TimerBegin, &[(0, 0.5)]), (NormalRecv, &[(0, 1.0)]), (LimitReached, &[(0, 0.5)])],
            act,
            (None, None),
        )]),
    }
}

/// P-CTR: counter probes. Three states: `load` (sets a counter to a start
/// value), `op` (applies the operation under test) and `zero` (CounterZero
/// target, with a distinguishable action and optionally its own counter update).
/// Events: NormalRecv -> load, NormalSent -> op, TunnelRecv -> op2 (same op on the
/// other register), CounterZero -> zero.
pub fn counter_probe(load_val: f64, op: Operation, value_kind: usize, on_b: bool, zero_variant: usize) -> Machine {
    use Event::*;
    let valc = |o: Operation| -> Counter {
        match value_kind {
            0 => Counter::new(o),
            1 => Counter::new_dist(o, u(0.0, 2.0)),
            2 => Counter::new_copy(o),
            3 => Counter::new_dist(o, c(2.0)),
            // copy supersedes dist (documented in counter.rs); only reachable through the public fields or a parsed machine
            4 => Counter { operation: o, dist: Some(c(2.0)), copy: true },
            _ => Counter { operation: o, dist: Some(c(0.0)), copy: true },
        }
    };
    let load = (Some(set(load_val)), Some(set(1.0)));
    let opc = if on_b { (None, Some(valc(op))) } else { (Some(valc(op)), None) };
    // what happens in the CounterZero target state
    let (zact, zctr, ztrans): (Option<Action>, (Option<Counter>, Option<Counter>), Vec<(Event, Vec<(usize, f32)>)>) = match zero_variant {
        0 => (Some(pad(true, true, 9.0, None)), (None, None), vec![(NormalRecv, vec![(0, 1.0)]), (NormalSent, vec![(1, 1.0)])]),
        // the CounterZero transition itself updates counters: decrements B (1 -> 0): chain
        1 => (Some(upd(true, 9.0, None)), (None, Some(dec())), vec![(NormalRecv, vec![(0, 1.0)]), (CounterZero, vec![(0, 1.0)]), (NormalSent, vec![(1, 1.0)])]),
        // no action in the zero state, goes straight on to signal on next event
        2 => (None, (Some(inc()), None), vec![(NormalRecv, vec![(0, 1.0)]), (NormalSent, vec![(1, 1.0)]), (CounterZero, vec![(2, 1.0)])]),
        _ => (Some(cancel(Timer::All)), (Some(dec()), Some(dec())), vec![(NormalRecv, vec![(0, 1.0)]), (CounterZero, vec![(END, 1.0)]), (NormalSent, vec![(1, 1.0)])]),
    };
    let zt: Vec<(Event, &[(usize, f32)])> = ztrans.iter().map(|(e, v)| (*e, v.as_slice())).collect();
    let b: Budget = (1000, 1.0, 1_000_000, 1.0);
    mk(b, vec![
        st(&[(NormalRecv, &[(0, 1.0)]), (NormalSent, &[(1, 1.0)]), (CounterZero, &[(2, 1.0)]), (TunnelRecv, &[(1, 1.0)])], Some(cancel(Timer::Action)), load),
        st(
            &[(NormalRecv, &[(0, 1.0)]), (NormalSent, &[(1, 1.0)]), (CounterZero, &[(2, 1.0)]), (TunnelRecv, &[(1, 1.0)])],
            Some(pad(false, false, 1.0, None)),
            opc,
        ),
        st(&zt, zact, zctr),
    ])
}

/// P-SIG: signal probes.
/// kind 0: signals on NormalRecv; Signal -> state 1 (pad action).
/// kind 1: signals on PaddingSent and on the LimitReached it causes (twice in one call).
/// kind 2: answers a Signal by signalling (Signal -> SIG); also reacts in state.
/// kind 3: signals on CounterZero.
/// kind 4: listener only: Signal -> state 1 (block action), NormalSent -> back.
/// kind 5: ends on NormalSent (END), otherwise listener.
/// kind 6: signals on NormalRecv with probability 1/2, answers with probability 1/2.
pub fn signaller(kind: usize) -> Machine {
    use Event::*;
    let b: Budget = (1000, 1.0, 1_000_000, 1.0);
    match kind {
        0 => mk(b, vec![
            st(&[(NormalRecv, &[(SIG, 1.0)]), (Signal, &[(1, 1.0)])], None, (None, None)),
            st(&[(NormalRecv, &[(SIG, 1.0)]), (Signal, &[(0, 1.0)])], Some(pad(false, false, 1.0, None)), (None, None)),
        ]),
        1 => mk(b, vec![
            st(
                &[(PaddingSent, &[(SIG, 1.0)]), (LimitReached, &[(SIG, 1.0)]), (Signal, &[(1, 1.0)]), (TunnelRecv, &[(0, 1.0)])],
                Some(pad(false, false, 2.0, Some(c(1.0)))),
                (None, None),
            ),
            st(&[(Signal, &[(0, 1.0)]), (PaddingSent, &[(SIG, 1.0)])], Some(upd(false, 2.0, None)), (None, None)),
        ]),
        2 => mk(b, vec![
            st(&[(Signal, &[(SIG, 1.0)]), (NormalSent, &[(1, 1.0)])], None, (None, None)),
            st(&[(Signal, &[(0, 1.0)]), (NormalSent, &[(0, 1.0)])], Some(blk(false, false, 3.0, 3.0, None)), (None, None)),
        ]),
        3 => mk(b, vec![
            st(&[(NormalRecv, &[(1, 1.0)]), (Signal, &[(0, 1.0)])], Some(cancel(Timer::Internal)), (Some(set(1.0)), None)),
            st(&[(CounterZero, &[(SIG, 1.0)]), (NormalRecv, &[(0, 1.0)]), (Signal, &[(0, 1.0)])], Some(upd(true, 4.0, None)), (Some(dec()), None)),
        ]),
        4 => mk(b, vec![
            st(&[(Signal, &[(1, 1.0)])], None, (None, None)),
            st(&[(Signal, &[(1, 1.0)]), (NormalSent, &[(0, 1.0)])], Some(blk(true, false, 5.0, 5.0, None)), (None, None)),
        ]),
        5 => mk(b, vec![
            st(&[(Signal, &[(1, 1.0)]), (NormalSent, &[(END, 1.0)])], None, (None, None)),
            st(&[(Signal, &[(0, 1.0)]), (NormalSent, &[(END, 1.0)])], Some(pad(true, true, 6.0, None)), (None, None)),
        ]),
        _ => mk(b, vec![
            st(&[(NormalRecv, &[(SIG, 0.5)]), (Signal, &[(SIG, 0.5), (1, 0.5)])], None, (None, None)),
            st(&[(NormalRecv, &[(SIG, 0.5), (0, 0.5)]), (Signal, &[(0, 1.0)])], Some(upd(false, 7.0, None)), (None, None)),
        ]),
    }
}
pub const N_SIGNALLERS: usize = 7;

/// P-BIG: heavy-tailed / huge distributions in timeout and duration positions.
pub fn big_dists() -> Vec<(&'static str, Dist)> {
    vec![
        ("pareto", Dist::new(DistType::Pareto { scale: 1e10, shape: 0.1 }, 0.0, 0.0)),
        ("lognormal", Dist::new(DistType::LogNormal { mu: 40.0, sigma: 5.0 }, 0.0, 0.0)),
        ("uniform_huge", Dist::new(DistType::Uniform { low: 0.0, high: 1e300 }, 0.0, 0.0)),
        ("const_1e300", c(1e300)),
        ("const_max", c(f64::MAX)),
        ("weibull", Dist::new(DistType::Weibull { scale: 1e15, shape: 0.5 }, 0.0, 0.0)),
        ("gamma", Dist::new(DistType::Gamma { scale: 1e12, shape: 2.0 }, 0.0, 0.0)),
        ("day_plus_1", c(86_400_000_001.0)),
        ("day_exact", c(86_400_000_000.0)),
        ("start_inf_uniform", Dist::new(DistType::Uniform { low: 1.0, high: 2.0 }, 1e18, 0.0)),
        ("normal_huge", Dist::new(DistType::Normal { mean: 1e12, stdev: 1e11 }, 0.0, 0.0)),
        ("poisson_big", Dist::new(DistType::Poisson { lambda: 1e13 }, 0.0, 0.0)),
        // an explicit maximum above one day must not switch the day clamp off
        ("const30h_max48h", Dist::new(DistType::Uniform { low: 108e9, high: 108e9 }, 0.0, 172.8e9)),
        ("pareto_max1e300", Dist::new(DistType::Pareto { scale: 1e10, shape: 0.1 }, 0.0, 1e300)),
        ("uniform_huge_max1e299", Dist::new(DistType::Uniform { low: 0.0, high: 1e300 }, 0.0, 1e299)),
        ("start1e12_max1e13", Dist::new(DistType::Uniform { low: 1.0, high: 2.0 }, 1e12, 1e13)),
        ("max_just_above_day", Dist::new(DistType::Uniform { low: 0.0, high: 1e12 }, 0.0, 86_400_000_001.0)),
    ]
}
/// One machine per big distribution and action kind (timeout and duration positions).
pub fn big_machine(kind: usize, d: Dist) -> Machine {
    use Event::*;
    let b: Budget = (1000, 1.0, 1_000_000, 1.0);
    let a = match kind {
        0 => Action::SendPadding { bypass: false, replace: false, timeout: d, limit: None },
        1 => Action::BlockOutgoing { bypass: false, replace: false, timeout: d, duration: c(1.0), limit: None },
        2 => Action::BlockOutgoing { bypass: false, replace: true, timeout: c(1.0), duration: d, limit: None },
        _ => Action::UpdateTimer { replace: false, duration: d, limit: None },
    };
    mk(b, vec![st(&[(NormalRecv, &[(0, 1.0)]), (NormalSent, &[(0, 1.0)])], Some(a), (None, None))])
}

/// All 11 distribution families with moderate parameters.
pub fn all11() -> Vec<(&'static str, Dist)> {
    vec![
        ("uniform", u(0.0, 4.0)),
        ("normal", Dist::new(DistType::Normal { mean: 2.0, stdev: 1.0 }, 0.0, 5.0)),
        ("skewnormal", Dist::new(DistType::SkewNormal { location: 2.0, scale: 1.0, shape: 2.0 }, 0.0, 5.0)),
        ("lognormal", Dist::new(DistType::LogNormal { mu: 0.5, sigma: 0.5 }, 0.0, 5.0)),
        ("binomial", Dist::new(DistType::Binomial { trials: 4, probability: 0.5 }, 0.0, 0.0)),
        ("geometric", Dist::new(DistType::Geometric { probability: 0.5 }, 0.0, 5.0)),
        ("pareto", Dist::new(DistType::Pareto { scale: 1.0, shape: 2.0 }, 0.0, 5.0)),
        ("poisson", Dist::new(DistType::Poisson { lambda: 2.0 }, 0.0, 5.0)),
        ("weibull", Dist::new(DistType::Weibull { scale: 2.0, shape: 1.5 }, 0.0, 5.0)),
        ("gamma", Dist::new(DistType::Gamma { scale: 1.0, shape: 2.0 }, 0.0, 5.0)),
        ("beta", Dist::new(DistType::Beta { alpha: 2.0, beta: 2.0 }, 1.0, 5.0)),
    ]
}
/// P-ALL11: a machine using distribution `d` in position `pos`
/// (0 timeout, 1 duration, 2 limit, 3 counter value).
pub fn all11_machine(pos: usize, d: Dist) -> Machine {
    all11_machine_checked(pos, d).expect("family machine must validate")
}
pub fn all11_machine_checked(pos: usize, d: Dist) -> Result<Machine, maybenot::Error> {
    use Event::*;
    let b: Budget = (1000, 1.0, 1_000_000, 1.0);
    let tr: TransSpec<'_> = &[(NormalRecv, &[(1, 1.0)]), (NormalSent, &[(0, 1.0)]), (PaddingSent, &[(1, 1.0)]), (BlockingBegin, &[(1, 1.0)]), (LimitReached, &[(0, 1.0)]), (CounterZero, &[(0, 1.0)])];
    let (a, ctr) = match pos {
        0 => (Some(Action::SendPadding { bypass: false, replace: false, timeout: d, limit: None }), (None, None)),
        1 => (Some(Action::BlockOutgoing { bypass: false, replace: false, timeout: c(1.0), duration: d, limit: None }), (None, None)),
        2 => (Some(Action::SendPadding { bypass: false, replace: false, timeout: c(1.0), limit: Some(d) }), (None, None)),
        _ => (Some(pad(false, false, 1.0, None)), (Some(Counter::new_dist(Operation::Decrement, d)), Some(Counter::new_dist(Operation::Increment, d)))),
    };
    Machine::new(b.0, b.1, b.2, b.3, vec![st(tr, None, (Some(set(2.0)), None)), st(tr, a, ctr)])
}

// ---------------------------------------------------------------------------
// Collections
// ---------------------------------------------------------------------------
use crate::types::Cfg;

pub fn p_pad() -> Vec<(String, Machine)> {
    let mut v = vec![];
    for kind in 0..3 {
        for allowed in [0u64, 1, 2] {
            for frac in [0.0, 0.5, 1.0, 0.25] {
                v.push((format!("padder[k{kind},allowed{allowed},frac{frac}]"), padder(kind, allowed, frac)));
            }
        }
    }
    v
}
pub fn p_blk() -> Vec<(String, Machine)> {
    let mut v = vec![];
    for kind in 0..2 {
        for replace in [false, true] {
            for allowed in [0u64, 2, 1000] {
                for frac in [0.0, 0.25, 0.5, 1.0] {
                    v.push((format!("blocker[k{kind},rep{replace},allowed{allowed},frac{frac}]"), blocker(kind, replace, allowed, frac)));
                }
            }
        }
    }
    v
}
pub fn p_lim() -> Vec<(String, Machine)> {
    let mut v = vec![];
    for shape in 0..6 {
        for kind in 0..3 {
            for (ln, l) in limit_menu() {
                v.push((format!("limiter[s{shape},k{kind},{ln}]"), limiter(shape, kind, l)));
            }
        }
    }
    v
}
pub fn p_ctr() -> Vec<(String, Machine)> {
    let mut v = vec![];
    for (li, load) in [0.0, 1.0, 2.0, 1.8446744073709552e19, 1.8446744073709550e19].iter().enumerate() {
        for (oi, op) in [Operation::Increment, Operation::Decrement, Operation::Set].iter().enumerate() {
            for vk in 0..6 {
                for on_b in [false, true] {
                    for zv in 0..4 {
                        v.push((format!("ctr[load{li},op{oi},val{vk},b{on_b},z{zv}]"), counter_probe(*load, *op, vk, on_b, zv)));
                    }
                }
            }
        }
    }
    v
}
pub fn p_sig() -> Vec<(String, Machine)> {
    (0..N_SIGNALLERS).map(|k| (format!("sig[k{k}]"), signaller(k))).collect()
}
pub fn p_big() -> Vec<(String, Machine)> {
    let mut v = vec![];
    // every distribution family with a start offset above one day (with and without an explicit maximum)
    let mut dists: Vec<(String, Dist)> = big_dists().into_iter().map(|(n, d)| (n.to_string(), d)).collect();
    for (n, d) in all11() {
        dists.push((format!("{n}_start1e12"), Dist { dist: d.dist, start: 1e12, max: 0.0 }));
        dists.push((format!("{n}_start1e12_max1e13"), Dist { dist: d.dist, start: 1e12, max: 1e13 }));
    }
    for (n, d) in dists {
        if n.starts_with("binomial") {
            continue; // Binomial samplers under the explorer's extreme words are C13's subject (see p_big_binomial)
        }
        for kind in 0..4 {
            v.push((format!("big[{n},k{kind}]"), big_machine(kind, d)));
        }
    }
    v
}
/// Binomial with a start offset above one day: explored with central RNG words only
pub fn p_big_binomial() -> Vec<(String, Machine)> {
    let d = Dist::new(DistType::Binomial { trials: 4, probability: 0.5 }, 1e12, 0.0);
    (0..4).map(|k| (format!("big[binomial_start1e12,k{k}]"), big_machine(k, d))).collect()
}
pub fn p_all11() -> Vec<(String, Machine)> {
    let mut v = vec![];
    for (n, d) in all11() {
        for pos in 0..4 {
            v.push((format!("all11[{n},pos{pos}]"), all11_machine(pos, d)));
        }
    }
    v
}

pub fn uses_blocking(ms: &[Machine]) -> bool {
    ms.iter().any(|m| m.states.iter().any(|s| matches!(s.action, Some(Action::BlockOutgoing { .. }))))
}
pub fn uses_binomial(ms: &[Machine]) -> bool {
    ms.iter().any(|m| format!("{:?}", m).contains("Binomial"))
}

pub fn singles(lib: &[(String, Machine)], fracs: &[(f64, f64)]) -> Vec<Cfg> {
    let mut v = vec![];
    for (n, m) in lib {
        for (pf, bf) in fracs {
            v.push(Cfg::new(format!("[{n}] fw({pf},{bf})"), vec![m.clone()], *pf, *bf));
        }
    }
    v
}
/// deterministic pairing: machine i with machine (i*mul+add) mod n
pub fn pairs_strided(lib: &[(String, Machine)], mul: usize, add: usize, fracs: &[(f64, f64)]) -> Vec<Cfg> {
    let n = lib.len();
    let mut v = vec![];
    for i in 0..n {
        let j = (i * mul + add) % n;
        let (pf, bf) = fracs[i % fracs.len()];
        v.push(Cfg::new(format!("[{}, {}] fw({pf},{bf})", lib[i].0, lib[j].0), vec![lib[i].1.clone(), lib[j].1.clone()], pf, bf));
    }
    v
}
pub fn all_pairs(a: &[(String, Machine)], b: &[(String, Machine)], fracs: &[(f64, f64)]) -> Vec<Cfg> {
    let mut v = vec![];
    for (na, ma) in a {
        for (nb, mb) in b {
            for (pf, bf) in fracs {
                v.push(Cfg::new(format!("[{na}, {nb}] fw({pf},{bf})"), vec![ma.clone(), mb.clone()], *pf, *bf));
            }
        }
    }
    v
}
pub fn triples_strided(lib: &[(String, Machine)], fracs: &[(f64, f64)]) -> Vec<Cfg> {
    let n = lib.len();
    let mut v = vec![];
    for i in 0..n {
        let j = (i * 31 + 7) % n;
        let k = (i * 17 + 3) % n;
        let (pf, bf) = fracs[i % fracs.len()];
        v.push(Cfg::new(
            format!("[{}, {}, {}] fw({pf},{bf})", lib[i].0, lib[j].0, lib[k].0),
            vec![lib[i].1.clone(), lib[j].1.clone(), lib[k].1.clone()],
            pf,
            bf,
        ));
    }
    v
}

// ---------------------------------------------------------------------------
// Corpus of larger generated machines (labelled *sampled*: it never decides a verdict alone)
// ---------------------------------------------------------------------------
/// A deterministic pseudo-random validated machine with `n` states built from the menus above:
/// every state gets an action and a counter pair from the menus and 3-6 events with 1-2 targets each
/// (regular states, END, SIGNAL) with dyadic probabilities.
pub fn corpus_machine(seed: u64, n: usize) -> Machine {
    use rand_core::{RngCore, SeedableRng};
    let mut r = rand_xoshiro::Xoshiro256StarStar::seed_from_u64(seed);
    let am = actions_menu();
    let cm = counters_menu();
    let events: Vec<Event> = Event::iter().cloned().collect();
    loop {
        let mut states = vec![];
        for _ in 0..n {
            let mut t: EnumMap<Event, Vec<Trans>> = enum_map! { _ => vec![] };
            let k = 3 + (r.next_u32() % 4) as usize;
            for _ in 0..k {
                let e = events[(r.next_u32() as usize) % events.len()];
                let pick = |r: &mut rand_xoshiro::Xoshiro256StarStar| -> usize {
                    match r.next_u32() % 10 {
                        0 => END,
                        1 => SIG,
                        _ => (r.next_u32() as usize) % n,
                    }
                };
                let a = pick(&mut r);
                let mut v = vec![Trans(a, [1.0, 0.5, 0.25][(r.next_u32() % 3) as usize])];
                if v[0].1 < 1.0 && r.next_u32() % 2 == 0 {
                    let b = pick(&mut r);
                    if b != a {
                        v.push(Trans(b, [0.5, 0.25][(r.next_u32() % 2) as usize]));
                    }
                }
                t[e] = v;
            }
            states.push(st_map(t, am[(r.next_u32() as usize) % am.len()], cm[(r.next_u32() as usize) % cm.len()]));
        }
        let b = BUDGETS[(r.next_u32() as usize) % BUDGETS.len()];
        if let Ok(m) = Machine::new(b.0, b.1, b.2, b.3, states) {
            return m;
        }
    }
}
pub fn corpus(seed: u64, count: usize) -> Vec<(String, Machine)> {
    (0..count).map(|i| { let n = 3 + i % 4; (format!("corpus[seed{seed},#{i},{n} states]"), corpus_machine(seed.wrapping_mul(1_000_003).wrapping_add(i as u64), n)) }).collect()
}
