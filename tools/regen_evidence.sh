#!/bin/bash
# Re-run every registered quick check on the clean /repo tree, validate evidence and MANIFEST against the schemas.
cd /verif || exit 2
if [ -n "$(git -C /repo status --porcelain --untracked-files=no)" ]; then echo "/repo is not clean" >&2; exit 2; fi
./check build || exit 2
rc=0
for c in $(python3 -c "import json;print(' '.join(x['property_id'] for x in json.load(open('MANIFEST.json'))['checks']))"); do
  s=$(date +%s.%N); out=$(./check $c ${1:-quick} 2>&1); code=$?; e=$(date +%s.%N)
  printf "%s exit=%d %.1fs %s\n" $c $code $(echo "$e - $s" | bc) "$(echo "$out" | grep -c '^KNOWN-FINDING') known"
  if [ $code -ne 0 ]; then rc=1; echo "$out" | tail -5; fi
done
python3-vt - <<'PY' || rc=1
import json, jsonschema, glob, sys
es=json.load(open('/root/.vp/EVIDENCE.schema.json')); ms=json.load(open('/root/.vp/MANIFEST.schema.json'))
m=json.load(open('/verif/MANIFEST.json')); jsonschema.validate(m, ms)
bad=0
for c in m['checks']:
    try:
        e=json.load(open('/verif/'+c['evidence_file'])); jsonschema.validate(e, es)
        assert e['property_id']==c['property_id'] and e['level']==c['level_claimed']['category'], (e['level'], c['level_claimed']['category'])
        assert e.get('violations',0)==0, 'violations in evidence'
    except Exception as ex:
        bad+=1; print('EVIDENCE PROBLEM', c['property_id'], str(ex)[:200])
print('manifest + %d evidence files validated, %d problems' % (len(m['checks']), bad)); sys.exit(1 if bad else 0)
PY
exit $rc
