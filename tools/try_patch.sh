#!/bin/bash
# tools/try_patch.sh <patch> <Cxx>... : apply a patch to /repo, run the quick checks, always restore /repo.
# Prints one line per check: <Cxx> exit=<code> [first VIOLATION line]
P="$(realpath "$1")"; shift
cd /repo || exit 2
if ! git diff --quiet; then echo "/repo has uncommitted changes; refusing" >&2; exit 2; fi
# always restore /repo and rebuild the harness against the restored tree (otherwise the binary of the last patched build would stay behind)
trap 'git -C /repo checkout -- . ; git -C /repo clean -fdq -- crates ; /verif/check build >/dev/null 2>&1' EXIT
git apply "$P" || { echo "patch does not apply" >&2; exit 2; }
cd /verif
export VERIF_EVIDENCE_DIR=/verif/harness/target/evidence-scratch
for c in "$@"; do
  out=$(./check "$c" ${TIER:-quick} 2>&1); rc=$?
  echo "$c exit=$rc $(echo "$out" | grep -m1 -B1 '^VIOLATION' | tr '\n' ' ' | cut -c1-400)"
  if [ $rc -eq 2 ]; then echo "$out" | tail -5; fi
done
