#!/usr/bin/env python3
"""Regenerate /verif/MANIFEST.json from the table below (single source of truth)."""
import json, os, sys
HERE = os.path.dirname(os.path.dirname(os.path.abspath(__file__)))
props = [json.loads(l) for l in open(os.path.join(HERE, "properties.jsonl"))]

E1 = "explicit-state BFS over the real Framework::trigger_events (every batch of the alphabet x time steps x every outcome of every RNG draw, to a depth bound, for families of 1-3 small machines)"
META = {
 "C01": dict(engine="E1", cat="model_checking", ref="3 C01",
   text=E1 + "; oracle: every call returns (panics with overflow checks on, aborts and hangs are contained by a supervisor and attributed through breadcrumbs) and performs at most 4*(events+1)*(machines+1) machine steps; foreign / usize::MAX ids, backwards and huge clock steps, all 11 distribution families and saturated counters are part of the alphabet. Two sub-checks run outside the explorer: extreme std::time instants (spans up to 2^62 s), and Binomial timeouts under ordinary seeded streams in watchdog-isolated helper processes.",
   note="Bounded by the machine families, depth and menus in the evidence. Distribution samplers under extreme RNG words are C13's subject.",
   tech="explicit-state BFS of the real implementation with crash containment (bounded-exhaustive over machines x histories x RNG choice tree)"),
 "C02": dict(engine="E1", cat="model_checking", ref="3 C02",
   text=E1 + " restricted to single-event calls; the observer recounts NormalSent / PaddingSent from the fed history (public inputs only) and judges every returned SendPadding against allowance, machine fraction and framework fraction.",
   note="Budgets {0,1,2} x fractions {0,.25,.5,1} plus own / framework fractions 5e-324 .. f64::EPSILON and the non-dyadic fractions 1/3, 5/6, 0.7, 0.9 (count ratio exactly at the limit; budgets {0,1,3}); 1-3 machines; histories to the depth bound (one machine: 10-12 calls quick, 12-14 thorough).",
   tech="explicit-state BFS of the real implementation with an independent recounting observer as product state"),
 "C03": dict(engine="E1", cat="model_checking", ref="3 C03",
   text=E1 + " over a virtual clock (steps 0, +1, +3, +1000, -2 us); the observer recomputes blocked time from the fed BlockingBegin/BlockingEnd events and time stamps and judges every returned BlockOutgoing (replace escape, microsecond allowance, machine and framework share). A second phase runs every history to the depth bound over the real std::time::Instant with nanosecond steps and decides the share comparison exactly (dyadic big-integer comparison, no slack).",
   note="Budgets {0,2,1000}us x fractions {0,.25,.5,1} plus fractions at the bottom of the valid range; std::time phase: fractions {0,.25,.5,.75,.875,1}; 1-2 machines; depth bound.",
   tech="explicit-state BFS of the real implementation over a virtual clock with a recomputing observer"),
 "C04": dict(engine="E1", cat="model_checking", ref="3 C04",
   text=E1 + " with batches of 0..2 events plus long batches; oracle on the returned iterator: distinct existing machine ids, at most one action per machine, kind/flags defined by some state of that machine, timeouts/durations <= 24 h (heavy-tailed and 1e300 distributions under extreme RNG words), silence of ended machines in later calls.",
   note="Families G1, G2, P-SIG, P-LIM, P-BIG; depth bound.",
   tech="explicit-state BFS of the real implementation with an output-contract oracle on every transition"),
 "C05": dict(engine="E1", cat="model_checking", ref="3 C05, 1.1-1.3",
   text=E1 + ", every transition executed in lock-step on an executable reference semantics and compared on actions, internal step sequence, draw count and runtime snapshot; plus clone-determinism and fresh-instance differential checks.",
   note="sample_state and Dist::sample are delegated to the real functions (C06, C13). The reference semantics is a reading of the crate documentation.",
   tech="explicit-state BFS of the real implementation in lock-step with a reference model (conformance on every explored transition)"),
 "C07": dict(engine="E1", cat="model_checking", ref="3 C07",
   text=E1 + " with completions for own / other / unknown ids, self-transitions, leave/re-enter and CounterZero round trips, single events and all ordered pairs as batches; the observer tracks the remaining limit per stay as the property prescribes and checks LimitReached, withdrawal of the pending action and the origin of every returned limited action.",
   note="Limit distributions none / const 0..3 / Uniform[0,2]; the hook step log is trusted to report internal events.",
   tech="explicit-state BFS of the real implementation with a per-stay limit automaton as product observer"),
 "C08": dict(engine="E1", cat="model_checking", ref="3 C08",
   text=E1 + "; the observer recomputes both counters from the entered states with saturating u64 arithmetic (a set of possibilities for sampled values) and checks register values, that CounterZero is raised exactly when due and immediately, the once-per-counter-per-machine-per-call rule, and action precedence.",
   note="Values {0,1,2,5,1.8e19,2^64}, Uniform[0,2], copy; 1-3 machines.",
   tech="explicit-state BFS of the real implementation with a recomputing counter observer"),
 "C09": dict(engine="E1", cat="model_checking", ref="3 C09",
   text=E1 + " for all ordered pairs and triples of signal probes plus general machines with signal transitions; the observer counts distinct signallers and Signal deliveries per live machine in every call and requires nothing pending at return.",
   note="1-3 machines; signalling on external events, LimitReached, CounterZero and Signal (answering); ended machines; plus sets of 258 (thorough: 515 and 65538) machines with signal probes at indices on both sides of 256 / 65536 among listeners.",
   tech="explicit-state BFS of the real implementation with a signal-accounting observer"),
 "C10": dict(engine="E1", cat="model_checking", ref="3 C10",
   text="Product BFS over (combined framework, solo framework), both the real implementation: the subject machine next to neighbours vs alone on the id-mapped history; the subject's returned actions must be identical at every explored transition.",
   note="Deterministic machines that never signal; framework fractions 0; arrangements [N,S], [S,N], [N,S,N'].",
   tech="explicit-state product exploration of two instances of the real implementation (differential oracle)"),
}

E4 = "bounded-exhaustive enumeration of closed simulator systems (input trace x network delay x machine sets on client/server x arguments) executed on the real sim_advanced"
SIMNOTE = "Traces of a few packets, two-state deterministic gadget machines (S-library) enumerated exhaustively, plus a labelled sampled supplement of closed systems with generated 3-6 state machines; no integration delays; the per-side replay through a fresh real Framework with the same seed recovers the actions the simulator acted on (relies on C05 determinism)."
META.update({
 "C14": dict(engine="E4", cat="model_checking", ref="5 C14",
   text="All input traces up to a length bound over window-edge gaps and both directions x network delays x both APIs (sim, sim_advanced) x every output-filter combination, run on the real simulator without machines; oracle: the network-visible events equal the input trace exactly (mirrored, shifted by the delay at the server), nothing else.",
   note="Traces <= 5 (quick) / 6 packets over gaps {0,1ns,1us,100ms,100ms+1ns,1s}; delays {0,1ns,10ms}.",
   tech="bounded-exhaustive enumeration of inputs executed on the real simulator against an independent reference trace"),
 "C15": dict(engine="E4", cat="model_checking", ref="5 C15",
   text=E4 + "; oracle on the unfiltered trace: time order, exact matching of every TunnelRecv to a distinct earlier TunnelSent of the same kind on the other side at least one network delay before, normal-packet conservation per side (equality when the run ended by itself); includes systems with more than a thousand packets held back by one block, seeds at the top of the u64 range, and systems with integration reporting / trigger delays under every length bound 0-9, for which only the time order of the returned trace is judged.",
   note=SIMNOTE, tech="bounded-exhaustive enumeration of closed systems on the real simulator with a conservation/causality oracle"),
 "C16": dict(engine="E4", cat="model_checking", ref="5 C16",
   text=E4 + " for sets containing blocking gadgets (all four bypass/replace combinations, overlapping and back-to-back blocks, durations from 0); per-side monitor bound to the run by replay: blocking window per the contract, exactly one BlockingEnd at expiry after the begin, every TunnelSent inside the window bypass-flagged, allowed by every action that started/updated the blocking, and earned by a bypass padding action.",
   note=SIMNOTE + " Known finding: latest-wins bypass flag (known_findings.txt).", tech="bounded-exhaustive enumeration of closed systems on the real simulator with a replay-bound blocking-window monitor"),
 "C17": dict(engine="E4", cat="model_checking", ref="5 C17",
   text=E4 + " for sets with padding/blocking/cancel gadgets (timeouts from 0, actions re-issued before firing, cancels of each timer kind, several machines per side); per-machine monitor bound by replay: every PaddingSent/BlockingBegin is the firing of the most recent action at issue time + timeout, once; superseded or cancelled actions never fire; unsuperseded ones fire before time moves past them.",
   note=SIMNOTE, tech="bounded-exhaustive enumeration of closed systems on the real simulator with a replay-bound action-timer monitor"),
 "C18": dict(engine="E4", cat="model_checking", ref="5 C18",
   text=E4 + " for sets with UpdateTimer gadgets (both replace settings, durations from 0, repeated updates at one instant, cancels, several machines, both sides); per-machine monitor bound by replay: expiry per the UpdateTimer contract, TimerBegin at the instant of every setting action, TimerEnd exactly once at the expiry, never for cancelled/superseded timers; timers expiring while a block is active; a further set of systems runs pure timer gadgets under a constant integration reporting delay with a trace-level monitor.",
   note=SIMNOTE, tech="bounded-exhaustive enumeration of closed systems on the real simulator with a replay-bound internal-timer monitor"),
 "C19": dict(engine="E4", cat="model_checking", ref="5 C19",
   text=E4 + " x packets-per-second limits {none,1,2,10,1000,2^32-1,2^32,usize::MAX} x stop conditions x all filter combinations x seeds; oracle: no panic (crash containment), two runs on clones of the same queue identical, filtered outputs equal the projection (prefix under a length cap) of the unfiltered trace, stop bounds respected (incl. bounds 2^33, 2^48 and usize::MAX), time order; systems with 12 000 - 60 000 pending aggregate delays run on a 2 MiB stack (a stack overflow is a crash verdict).",
   note=SIMNOTE, tech="bounded-exhaustive enumeration of closed systems and argument grids on the real simulator with differential (run-twice, filtered-vs-projection) oracles"),
})

META.update({
 "C06": dict(engine="E2", cat="model_checking", ref="3 C06",
   text="Complete enumeration of the transition draw's output space: for every validated probability vector of a corpus (1-5 targets incl. both pseudo-states, sums from tiny to exactly 1, entries at f32 resolution limits), placed on one of the 13 events of a state whose other events carry different vectors, all 2^23 distinct values of the uniform draw go through the real State::sample_state; exact outcome counts must equal p_i x 2^23 within the resolution of the draw. Probe machines tie the framework's observable effect (action / END / SIGNAL) to the sampled target for every one of the 2^23 words; thorough confirms the 512-to-1 word-to-value map over the full 2^32 word space.",
   note="The draw is rand's gen_range(0f32..1f32) = (word >> 9) / 2^23; vectors from a fixed menu of probabilities.",
   tech="exhaustive enumeration of all 2^23 outcomes of the random draw through the real sampling function (exact counting, no statistics)"),
 "C11": dict(engine="E3", cat="fault_enumeration", ref="4 C11",
   text="Valid side: every machine of the generated families plus size classes crossing every internal buffer boundary of the decode path (incl. the largest machines that still fit 1 MiB) must round-trip (string, name, Debug, framework behaviour). Hostile side: exhaustive single-fault enumeration of valid encodings - every truncation, every substitution and insertion of 20 symbols (incl. multibyte) at every position, every bit flip and truncation at the compressed and at the bincode layer, every version prefix - all short strings over a 12-symbol alphabet, the legacy v1 parser with a harness-side encoder (every header field / distribution parameter corner, single faults), and zlib bombs up to 1 GiB; and the harness-made encodings of every C12 candidate machine; oracle: no panic, Err or a machine that validates, satisfies the independent well-formedness predicate and can drive a framework, heap peak bounded by a constant plus the input length (counting allocator).",
   note="All single faults (thorough: all pairs of bit flips of the no-op machine), not all strings; heap measured per thread around the call.",
   tech="exhaustive single-fault enumeration of valid encodings plus bounded-exhaustive short-string enumeration, with crash containment and a heap-peak oracle"),
 "C12": dict(engine="E3", cat="exploration", ref="4 C12",
   text="Bounded-exhaustive enumeration of machine literals assembled through the public constructors and fields: every numeric slot (machine fractions, transition probabilities, every parameter / start / max of all 11 distribution families in 7 positions) set to each value of a 22-value corner menu (NaN, infinities, negative zero, subnormals, one ulp beyond each bound), plus structural faults; the four judgements Machine::new / validate / Framework::new / from_str(serialize) must agree, accepted machines must satisfy an independent well-formedness predicate, build frameworks for fractions in [0,1] and run; Framework::new is judged on every pair of corner values as its own fractions.",
   note="One slot at a time, all corner pairs of slots within a distribution, pairs and triples of transition probabilities, pairs of fractions (thorough: also triples of slots over a 10-value extreme menu); the distribution-domain predicate is no stronger than rand_distr 0.4.3's.",
   tech="bounded-exhaustive input enumeration against an independent reference predicate with a four-way differential between the acceptance paths"),
 "C13": dict(engine="E3", cat="exploration", ref="4 C13",
   text="All validated distributions of a parameter corner grid over the 11 families x (start,max) corner pairs, each sampled under every RNG script that deviates from a fair stream by a prefix of at most d extreme words (d = 2 quick / 3 thorough, 9-word menu) or a 64-word constant prefix, followed by a fair tail; oracle: returns within 1e5 draws and 250 ms (watchdog-isolated helper processes for Binomial), no panic, value not NaN, >= 0, <= max when set; also through the framework's consumers (timeout, duration, limit, counter).",
   note="Deviation-bounded enumeration of RNG scripts (iterated bound d); the fair tail is a fixed PRNG. Known finding: rand_distr Binomial (known_findings.txt).",
   tech="deviation-bounded exhaustive enumeration of RNG scripts (environment answers) over a bounded-exhaustive parameter grid, with hang containment"),
})

META.update({
 "C20": dict(engine="E1", cat="model_checking", ref="3 C20",
   text="E1 as a product with a live C-API instance: BFS over the states of a Rust twin framework; for every explored edge (empty batch, every single event with own / foreign / usize::MAX ids, all ordered pairs, long batches) a fresh instance is started with maybenot_start, the history replayed through maybenot_on_events, and the actions written for the last batch compared field by field with the twin's (tag, machine, bypass, replace, timer, seconds/nanoseconds split), in a buffer of num_machines slots surrounded by canary slots; plus the exhaustive start-argument menu (machine strings x fractions x null out pointer) against the Rust API's own verdict, null-pointer cases on every entry point, and a leak check with a counting allocator.",
   note="Machines with deterministic sampling and time-independent budgets (the API seeds its RNG from the OS and reads Instant::now() itself); callers honour the documented safety contract.",
   tech="explicit-state BFS of a reference twin with every explored trace replayed against the real C API (conformance on every edge), canary-guarded buffers"),
})

def built_ids():
    # a check is registered once its module exists in the harness
    src = open(os.path.join(HERE, "harness", "src", "main.rs")).read()
    return [i for i in META if f'id: "{i}"' in src]

built = built_ids()
checks = []
for p in props:
    i = p["id"]
    if i in built:
        m = META[i]
        checks.append(dict(property_id=i, quick_cmd=f"./check {i} quick", thorough_cmd=f"./check {i} thorough",
            evidence_file=f"evidence/{i}.json", replay_cmd_template="./check replay {path}", engine=m["engine"],
            level_claimed=dict(category=m["cat"], text=m["text"], design_ref=m["ref"]), level_note=m["note"], technique=m["tech"]))
engines = {}
for i in built:
    engines.setdefault(META[i]["engine"], []).append(i)
ENG = {
 "E1": ("harness/src/explore.rs", "explicit-state BFS over the real Framework with RNG choice-tree enumeration, lock-step reference model and per-property observers"),
 "E2": ("harness/src/checks/c06.rs", "complete enumeration of the 2^23 outcomes of the transition draw through the real State::sample_state"),
 "E3": ("harness/src/checks/c11.rs", "bounded-exhaustive input and single/double fault enumeration of encodings, validation inputs and RNG scripts"),
 "E4": ("harness/src/sim.rs", "bounded-exhaustive enumeration of closed simulator systems on the real sim/sim_advanced with replay-bound contract monitors"),
}
man = dict(version=1, setup_cmd="./check build",
  hooks=dict(guard="cargo feature `verif` (crates maybenot and maybenot-simulator; default off)",
             enable="the harness depends on maybenot / maybenot-simulator with features=[\"verif\"] (harness/Cargo.toml)",
             baseline_off_cmd="cd /repo && cargo test --workspace --no-fail-fast --offline",
             source_commits=["5335312", "98789ad"], add_only=True),
  engines=[dict(name=k, path=ENG[k][0], serves_properties=sorted(v), kind_free_text=ENG[k][1]) for k, v in sorted(engines.items())],
  checks=checks,
  notes="Exit codes: 0 held, 1 VIOLATION (replay file under replays/), 2 machinery failure. Known findings and repaired defects: known_findings.txt. Design: DESIGN.md.",
  not_applicable=[dict(property_id=p["id"], reason="check under construction (engine designed in DESIGN.md, not yet registered)") for p in props if p["id"] not in built])
json.dump(man, open(os.path.join(HERE, "MANIFEST.json"), "w"), indent=1)
print("MANIFEST.json:", len(checks), "checks,", len(man["not_applicable"]), "not applicable")
