#!/usr/bin/env python3
"""(Re)generate the hand-written mutant patches in /verif/mutants from textual replacements
applied to /repo's HEAD, and the INDEX.json naming the checks expected to report each."""
import subprocess, os, json, sys
REPO="/repo"; OUT="/verif/mutants"
FW="crates/maybenot/src/framework.rs"; ST="crates/maybenot/src/state.rs"; MA="crates/maybenot/src/machine.rs"; AC="crates/maybenot/src/action.rs"; DI="crates/maybenot/src/dist.rs"
L="crates/maybenot-simulator/src/lib.rs"; N="crates/maybenot-simulator/src/network.rs"; Q="crates/maybenot-simulator/src/queue_peek.rs"; FF="crates/maybenot-ffi/src/lib.rs"; FFI="crates/maybenot-ffi/src/ffi.rs"
M = [
 ("unfix-div_duration_rounding", "crates/maybenot/src/time.rs", "        to_f64(self.as_nanos(), true) / to_f64(rhs.as_nanos(), false)", "        let _ = to_f64;\n        self.as_secs_f64() / rhs.as_secs_f64()", ["C03"], []),
 ("unfix-div_duration_directed_rounding", "crates/maybenot/src/time.rs", "        to_f64(self.as_nanos(), true) / to_f64(rhs.as_nanos(), false)", "        let _ = to_f64;\n        self.as_nanos() as f64 / rhs.as_nanos() as f64", ["C03"], []),
 ("unfix-direct_return_of_due_action", L, """        if a.integration_delay == Duration::default() {
            // the action was strictly the earliest item and takes effect at
            // its own time: its event is the next event. Queueing it and
            // picking again would let whatever the action's effect makes
            // eligible (a block expiry of zero duration, packets released by a
            // now bypassable block) overtake the event that reports it, and a
            // Cancel or newer action triggered that way would find the slot
            // already empty.
            return Pick::Done(Some(a));
        }
        sq.push_sim(a.clone());""", """        sq.push_sim(a.clone());""", ["C16","C17"], []),
 ("fw-no-bounds-check-timerend", FW, """                let mi = machine.into_raw();
                if mi >= self.runtime.len() {
                    return;
                }
                self.transition(mi, Event::TimerEnd);""", """                let mi = machine.into_raw();
                self.transition(mi, Event::TimerEnd);""", ["C01","C05"], []),
 ("fw-wrapping-limit-decrement", FW, """        if self.runtime[mi].state_limit > 0 {
            self.runtime[mi].state_limit -= 1;
        }""", """        self.runtime[mi].state_limit = self.runtime[mi].state_limit.wrapping_sub(1);""", ["C07","C05"], []),
 ("fw-limit-consumed-by-any-blockingbegin", FW, """                        && mi == machine.into_raw()
""", """                        && (mi == machine.into_raw() || mi < usize::MAX)
""", ["C07","C05"], []),
 ("fw-action-scheduled-before-counter-update-EQUIVALENT-since-bdc021e", FW, """                let (allow_schedule, state_changed) = self.update_counter(mi);

                // schedule an action if allowed by counter update and below all limits
                if allow_schedule && below_limits {
                    self.schedule_action(mi, next_state);
                }""", """                if below_limits {
                    self.schedule_action(mi, next_state);
                }
                let (_allow_schedule, state_changed) = self.update_counter(mi);""", [], ["C08"]),
 ("fw-ongoing-block-ignored", FW, """        if self.blocking_active {
            // account for ongoing blocking as well, add duration""", """        if self.blocking_active && self.runtime.is_empty() {
            // account for ongoing blocking as well, add duration""", ["C03","C05"], []),
 ("fw-counterzero-guard-reset-per-event", FW, """        for e in events {
            self.process_event(e);""", """        for e in events {
            self.counter_zeroed_once.fill((false, false));
            self.process_event(e);""", ["C08","C05"], []),
 ("fw-ended-machine-revived-by-signal", FW, """        if self.runtime[mi].current_state == STATE_END {
            return StateChange::Unchanged;
        }

        // sample next state""", """        if self.runtime[mi].current_state == STATE_END {
            if event == Event::Signal {
                self.runtime[mi].current_state = 0;
            }
            return StateChange::Unchanged;
        }

        // sample next state""", ["C04","C05"], []),
 ("fw-machine-fraction-from-global-normal-count-EQUIVALENT", FW, """            let total = runtime.normal_sent + runtime.padding_sent;""", """            let total = self.normal_sent_packets + runtime.padding_sent;""", [], ["C02","C05"]),
 ("fw-machine-fraction-from-global-padding", FW, """            if total > 0 && runtime.padding_sent as f64 / total as f64 >= machine.max_padding_frac {""", """            if total > 0 && self.padding_sent_packets as f64 / total as f64 >= machine.max_padding_frac {""", ["C05"], ["C02"]),
 ("fw-unknown-id-padding-not-counted", FW, """                self.padding_sent_packets += 1;

                let mi = machine.into_raw();
                if mi >= self.runtime.len() {
                    return;
                }""", """                let mi = machine.into_raw();
                if mi >= self.runtime.len() {
                    return;
                }
                self.padding_sent_packets += 1;""", ["C02","C05"], []),
 ("fw-unpaired-blockingend-adds-time", FW, """                if self.blocking_active {
                    blocked = self""", """                if self.blocking_active || !self.runtime.is_empty() {
                    blocked = self""", ["C05"], ["C03"]),
 ("fw-framework-fraction-gt", FW, """            if total > 0 && self.padding_sent_packets as f64 / total as f64 >= self.max_padding_frac""", """            if total > 0 && self.padding_sent_packets as f64 / total as f64 > self.max_padding_frac""", ["C02","C05"], []),
 ("fw-block-budget-le", FW, """        if m_block_dur < runtime.allowed_blocked_microsec {""", """        if m_block_dur <= runtime.allowed_blocked_microsec {""", ["C03","C05"], []),
 ("fw-day-clamp-dropped-on-timer", AC, """                duration.sample(rng).min(MAX_SAMPLED_TIMER_DURATION).round() as u64""", """                duration.sample(rng).round() as u64""", ["C04","C05"], []),
 ("fw-sample-state-reversed-EQUIVALENT", ST, """            for t in vector.iter() {
                sum += t.1;
                if r < sum {""", """            for t in vector.iter().rev() {
                sum += t.1;
                if r < sum {""", [], ["C05", "C06"]),
 ("fw-sample-state-sum-assign", ST, """                sum += t.1;
                if r < sum {""", """                sum = t.1;
                if r < sum {""", ["C06"], []),
 ("fw-signal-first-signaller-wins", FW, """                    _ => Some(SignalTarget::All),""", """                    Some(SignalTarget::AllExcept(x)) => Some(SignalTarget::AllExcept(x)),
                    _ => Some(SignalTarget::All),""", ["C09","C05"], []),
 ("val-accept-sum-above-one", ST, """            if !(sum > 0.0 && sum <= 1.0) {""", """            if !(sum > 0.0 && sum <= 1.5) {""", ["C12"], []),
 ("val-skip-duplicate-check", ST, """                if seen.contains(&t.0) {""", """                if false && seen.contains(&t.0) {""", ["C12"], []),
 ("val-skip-limit-validate", AC, """            Action::SendPadding { timeout, limit, .. } => {
                timeout.validate()?;
                if let Some(limit) = limit {
                    limit.validate()?;
                }""", """            Action::SendPadding { timeout, limit, .. } => {
                timeout.validate()?;
                let _ = limit;""", ["C12"], []),
 ("enc-no-ascii-check", MA, """        if !s.is_ascii() {
            Err(Error::Machine("string is not ascii".to_string()))?;
        }""", """""", ["C11"], []),
 ("enc-read-to-end", MA, """        let mut bytes_read = 0;
        while bytes_read < buf.len() {
            let n = decoder
                .read(&mut buf[bytes_read..])
                .map_err(|e| Error::Machine(e.to_string()))?;
            if n == 0 {
                break;
            }
            bytes_read += n;
        }""", """        buf.clear();
        let bytes_read = decoder
            .read_to_end(&mut buf)
            .map_err(|e| Error::Machine(e.to_string()))?;""", ["C11"], []),
 ("dist-geometric-min-probability-dropped", DI, """                if probability != 0.0 && probability < DIST_MIN_PROBABILITY {
                    Err(Error::Machine(
                        format!("for Geometric dist""", """                if false && probability != 0.0 && probability < DIST_MIN_PROBABILITY {
                    Err(Error::Machine(
                        format!("for Geometric dist""", ["C12"], []),
 ("sim-block-replace-ignored", L, "                    Some(current) => replace || block > current,", "                    Some(current) => block > current,", ["C16"], []),
 ("sim-new-action-does-not-overwrite", L, """                state.scheduled_action[machine.into_raw()] = Some(ScheduledAction {
                    action: action.clone(),
                    time: *current_time + *timeout + trigger_delay,
                });
            }
            TriggerAction::BlockOutgoing {""", """                if state.scheduled_action[machine.into_raw()].is_none() {
                    state.scheduled_action[machine.into_raw()] = Some(ScheduledAction {
                        action: action.clone(),
                        time: *current_time + *timeout + trigger_delay,
                    });
                }
            }
            TriggerAction::BlockOutgoing {""", ["C17"], []),
 ("sim-replaced-padding-also-sent", N, """                        if !next.bypass {
                            debug!(
                                "\\treplaced padding sent with blocked queued normal @{}",
                                side
                            );
                            return false;
                        }""", """                        if !next.bypass {
                            debug!(
                                "\\treplaced padding sent with blocked queued normal @{}",
                                side
                            );
                        }""", ["C16"], []),
 ("sim-server-seeded-like-client-EQUIVALENT", L, "args.insecure_rng_seed.map(|seed| seed.wrapping_add(1)),", "args.insecure_rng_seed.map(|seed| seed.wrapping_add(0)),", [], ["C19"]),
 ("sim-final-sort-removed-EQUIVALENT", L, "    trace.sort_by(|a, b| a.time.cmp(&b.time));\n", "", [], ["C15","C19"]),
 ("sim-cancel-internal-clears-nothing", L, """                    Timer::Internal => {
                        state.scheduled_internal_timer[machine.into_raw()] = None;
                    }""", """                    Timer::Internal => {}""", ["C18"], []),
 ("sim-recv-one-ns-early", N, "next.time - next.integration_delay + network_delay + reporting_delay,", "next.time - next.integration_delay + network_delay + reporting_delay - std::time::Duration::from_nanos(if network_delay.as_nanos() > 1 { 1 } else { 0 }),", ["C15","C14"], []),
 ("ffi-zip-one-short", FF, ".zip(actions.iter_mut())", ".zip(actions.iter_mut().skip(1))", ["C20"], []),
 ("ffi-timerbegin-mapped-to-timerend", FF, "MaybenotEventType::TimerBegin => TriggerEvent::TimerBegin { machine },", "MaybenotEventType::TimerBegin => TriggerEvent::TimerEnd { machine },", ["C20"], []),
]
only=sys.argv[1:]
idx=[]
existing=os.path.join(OUT,"INDEX.json")
for name,f,a,b,det,sil in M:
    p=os.path.join(REPO,f); s=open(p).read()
    if s.count(a)<1:
        print("PATTERN NOT FOUND:",name); continue
    open(p,"w").write(s.replace(a,b,1))
    d=subprocess.run(["git","-C",REPO,"diff"],capture_output=True,text=True).stdout
    subprocess.run(["git","-C",REPO,"checkout","--","."])
    open(os.path.join(OUT,name+".patch"),"w").write(d)
    idx.append(dict(name=name,patch="mutants/"+name+".patch",detected_by=det,silent=sil))
# reverse patches of the fix commits and the FFI flag swap
for n,det in [("unfix-zero_total_padding",["C02","C07","C05"]),("unfix-global_counterzero_guard",["C08","C10","C05"]),("unfix-double_signal_all",["C09","C05"]),("unfix-leftover_signal",["C09","C05"]),("unfix-nan_validation",["C12"]),("unfix-single_read",["C11"]),("unfix-pps_division",["C19"]),("unfix-zero_duration_timer",["C18"]),("unfix-stale_pending_action",["C08","C05"]),("unfix-zero_duration_block_start",["C16"]),("unfix-pick_next_recursion",["C19"]),("unfix-trace_capacity_from_bound",["C19"]),("ffi-swap-flags",["C20"]),("fw-global-padding-count-thread-local",["C05"])]:
    idx.append(dict(name=n,patch="mutants/"+n+".patch",detected_by=det,silent=[]))
json.dump(idx,open(existing,"w"),indent=1)
print(len(idx),"mutants indexed")
