#!/usr/bin/env python3
"""Re-run the quick checks recorded for every seeded change (seeded/*/meta.json) against the current harness and
update detected_by / missed_by. /repo is patched and always restored by tools/try_patch.sh."""
import json, glob, os, re, subprocess, sys
only = sys.argv[1:]
for meta in sorted(glob.glob('/verif/seeded/*/meta.json')):
    d = os.path.dirname(meta); name = os.path.basename(d)
    if only and not any(o in name for o in only): continue
    m = json.load(open(meta))
    checks = sorted(set(list(m.get('check_results', {}).keys()) + [m['breaks']]))
    r = subprocess.run(['/verif/tools/try_patch.sh', os.path.join(d, 'patch.diff')] + checks, text=True, capture_output=True)
    res = {}
    for line in r.stdout.splitlines():
        mm = re.match(r'(C\d\d) exit=(\d+)(.*)', line)
        if mm: res[mm.group(1)] = dict(exit=int(mm.group(2)), first_violation=mm.group(3).strip()[:500])
    m['check_results'] = res
    m['detected_by'] = [k for k, v in res.items() if v['exit'] == 1]
    m['missed_by'] = [k for k, v in res.items() if v['exit'] == 0]
    m['machinery_failure'] = [k for k, v in res.items() if v['exit'] == 2]
    json.dump(m, open(meta, 'w'), indent=1)
    print(name, {k: v['exit'] for k, v in res.items()}, flush=True)
