#!/usr/bin/env python3
"""Print the markdown table of seeded changes (seeded/*/meta.json) for DESIGN.md section 10.5."""
import json, glob, os, re
rows = []
for meta in sorted(glob.glob('/verif/seeded/*/meta.json'), key=lambda p: (os.path.basename(os.path.dirname(p)).split('-')[0], 'r2' in p, p)):
    name = os.path.basename(os.path.dirname(meta))
    m = json.load(open(meta))
    notes = os.path.join(os.path.dirname(meta), 'notes.md')
    title = ''
    if os.path.exists(notes):
        for l in open(notes):
            l = l.strip().lstrip('#').strip()
            if l:
                title = re.sub(r'^(C\d\d\s*)?(round[- ]two\s*)?(mutant|Mutant)\s*\d\s*[-–—:.]*\s*', '', l)[:110]
                break
    det = ','.join(sorted(m.get('detected_by', []))) or '-'
    mis = ','.join(sorted(m.get('missed_by', []))) or '-'
    rows.append(f"| {name} | {title.replace('|','/')} | {det} | {mis} |")
print("| change | what it does | reported by | silent |")
print("|--------|--------------|-------------|--------|")
print("\n".join(rows))
print(f"\n{len(rows)} changes")
