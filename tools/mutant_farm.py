#!/usr/bin/env python3
"""Regression run of the quick checks over the recorded property-breaking changes, in parallel, WITHOUT touching /repo.

  tools/mutant_farm.py [-j N] [--all-checks] [--update] [name-substring ...]

Each of the N workers owns a scratch git worktree of /repo's HEAD and a scratch copy of the harness whose path
dependencies point at that worktree (under /tmp/mutant-farm, removed at the end, together with the worktrees).
For every change (mutants/INDEX.json and seeded/*/meta.json) a worker applies the patch to its worktree, rebuilds
the harness against it, runs the quick checks recorded for the change (detected_by + missed_by/silent, or every
check named in check_results with --all-checks), and restores the worktree. The harness sources are the ones in
/verif at the time of the call; evidence goes to a scratch directory.

This is the same procedure as tools/try_patch.sh (which patches /repo itself and is what the confirmation of every
change used); the farm exists so that a full regression over ~180 changes takes minutes instead of hours and can
run while /repo stays clean. --update rewrites check_results / detected_by / missed_by in the seeded meta files.
Exit 0 iff every change is reported by at least one of the checks recorded as detecting it (by-design silent
changes, marked by an "assessment" in their meta, are expected to stay silent).
"""
import glob, json, os, queue, re, shutil, subprocess, sys, threading

V = "/verif"
ROOT = "/tmp/mutant-farm"

def sh(cmd, **kw):
    return subprocess.run(cmd, shell=True, text=True, capture_output=True, **kw)

def entries(filters, all_checks):
    out = []
    idx = os.path.join(V, "mutants", "INDEX.json")
    if os.path.exists(idx):
        for e in json.load(open(idx)):
            out.append(dict(name="mutants/" + e["name"], patch=os.path.join(V, e["patch"]), expect=e.get("detected_by", []), checks=sorted(set(e.get("detected_by", []) + e.get("silent", []))), meta=None, bydesign=not e.get("detected_by")))
    for meta in sorted(glob.glob(os.path.join(V, "seeded", "*", "meta.json"))):
        m = json.load(open(meta))
        d = os.path.dirname(meta)
        cr = list(m.get("check_results", {}).keys())
        checks = sorted(set((cr if all_checks else m.get("detected_by", [])) + [m["breaks"]]))
        out.append(dict(name="seeded/" + os.path.basename(d), patch=os.path.join(d, "patch.diff"), expect=m.get("detected_by", []), checks=checks, meta=meta, bydesign="assessment" in m and not m.get("detected_by")))
    if filters:
        out = [e for e in out if any(f in e["name"] for f in filters)]
    return out

def setup_worker(i):
    w = os.path.join(ROOT, "w%d" % i)
    os.makedirs(w, exist_ok=True)
    repo = os.path.join(w, "repo")
    r = sh("git -C /repo worktree add --detach %s HEAD" % repo)
    if r.returncode != 0:
        raise SystemExit("worktree: " + r.stderr)
    vd = os.path.join(w, "verif")
    os.makedirs(vd)
    sh("rsync -a --exclude target --exclude build.log %s/harness %s/" % (V, vd))
    for f in ("known_findings.txt", "MANIFEST.json", "DESIGN.md"):
        shutil.copy(os.path.join(V, f), vd)
    ct = os.path.join(vd, "harness", "Cargo.toml")
    s = open(ct).read().replace('"/repo/', '"%s/' % repo)
    open(ct, "w").write(s)
    return w

def run_one(w, e):
    repo, vd = os.path.join(w, "repo"), os.path.join(w, "verif")
    res = {}
    try:
        ap = sh("git -C %s apply %s" % (repo, e["patch"]))
        if ap.returncode != 0:
            return {"_error": "patch does not apply: " + ap.stderr.strip()[:200]}
        b = sh("cd %s/harness && CARGO_NET_OFFLINE=true cargo build --release --offline 2>&1 | tail -5" % vd)
        if not os.path.exists("%s/harness/target/release/vcheck" % vd) or "error" in b.stdout:
            return {"_error": "build failed: " + b.stdout[-300:]}
        env = dict(os.environ, VERIF_DIR=vd, VERIF_EVIDENCE_DIR=os.path.join(w, "evidence"), CARGO_NET_OFFLINE="true")
        for c in e["checks"]:
            r = subprocess.run(["%s/harness/target/release/vcheck" % vd, c, "quick"], text=True, capture_output=True, env=env, cwd=vd)
            viol = [l for l in r.stdout.splitlines() if l.startswith("VIOLATION")]
            first = ""
            lines = r.stdout.splitlines()
            for k, l in enumerate(lines):
                if l.startswith("VIOLATION"):
                    first = (lines[k - 1] if k else "")[:400]
                    break
            res[c] = dict(exit=r.returncode, first_violation=first if viol else "")
    finally:
        sh("git -C %s checkout -- . && git -C %s clean -fdq -- crates" % (repo, repo))
    return res

def main():
    args = sys.argv[1:]
    j = 4
    if "-j" in args:
        k = args.index("-j"); j = int(args[k + 1]); del args[k:k + 2]
    all_checks = "--all-checks" in args
    update = "--update" in args
    filters = [a for a in args if not a.startswith("--")]
    es = entries(filters, all_checks)
    if os.path.exists(ROOT):
        cleanup()
    os.makedirs(ROOT)
    q = queue.Queue()
    for e in es:
        q.put(e)
    results, lock = {}, threading.Lock()
    nw = min(j, max(1, len(es)))
    ws = [setup_worker(i) for i in range(nw)]
    def work(i):
        w = ws[i]
        while True:
            try:
                e = q.get_nowait()
            except queue.Empty:
                return
            r = run_one(w, e)
            with lock:
                results[e["name"]] = r
                det = [c for c, v in r.items() if isinstance(v, dict) and v.get("exit") == 1]
                print("%-28s %s" % (e["name"], {c: (v["exit"] if isinstance(v, dict) else v) for c, v in r.items()}), "" if det or e["bydesign"] else "  <-- NOT DETECTED", flush=True)
    ts = [threading.Thread(target=work, args=(i,)) for i in range(nw)]
    try:
        for t in ts: t.start()
        for t in ts: t.join()
    finally:
        cleanup()
    bad = 0
    for e in es:
        r = results.get(e["name"], {"_error": "not run"})
        det = [c for c, v in r.items() if isinstance(v, dict) and v.get("exit") == 1]
        mach = [c for c, v in r.items() if not isinstance(v, dict) or v.get("exit") not in (0, 1)]
        if e["bydesign"]:
            if det:
                print("by-design-silent change now reported:", e["name"], det); bad += 1
        elif not det or mach:
            bad += 1
        if update and e["meta"] and "_error" not in r:
            m = json.load(open(e["meta"]))
            cr = m.get("check_results", {})
            cr.update(r)
            m["check_results"] = cr
            m["detected_by"] = sorted(k for k, v in cr.items() if v["exit"] == 1)
            m["missed_by"] = sorted(k for k, v in cr.items() if v["exit"] == 0)
            m["machinery_failure"] = sorted(k for k, v in cr.items() if v["exit"] not in (0, 1))
            json.dump(m, open(e["meta"], "w"), indent=1)
    print("mutant farm: %d change(s), %d problem(s)" % (len(es), bad))
    return 1 if bad else 0

def cleanup():
    if os.path.isdir(ROOT):
        for w in glob.glob(os.path.join(ROOT, "w*")):
            sh("git -C /repo worktree remove --force %s/repo" % w)
        shutil.rmtree(ROOT, ignore_errors=True)
    sh("git -C /repo worktree prune")

if __name__ == "__main__":
    sys.exit(main())
