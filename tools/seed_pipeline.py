#!/usr/bin/env python3
"""tools/seed_pipeline.py <PROP> <worktree> [checks...]
For each out/mutant{i}.diff produced by an independent sub-agent in <worktree>:
 1. confirm in the scratch worktree: the diff applies, the workspace builds, the repository's own suite passes
    with it, the demonstration test fails with it and passes without it;
 2. run the named /verif quick checks against it (applied to /repo, always restored);
 3. store it as /verif/seeded/<PROP>-<i>/ (patch.diff, demo.rs, notes.md, meta.json).
"""
import json, os, subprocess, sys, shutil, re
prop, wt = sys.argv[1], sys.argv[2]
confirm_only = '--confirm-only' in sys.argv  # confirmation in the scratch worktree only; the checks are then run by tools/mutant_farm.py
checks = [c for c in sys.argv[3:] if not c.startswith('--')] or [prop]
env = dict(os.environ, CARGO_TARGET_DIR=os.path.join(wt, "target"), CARGO_NET_OFFLINE="true")
def sh(cmd, cwd=None, env=env):
    return subprocess.run(cmd, shell=True, text=True, capture_output=True, cwd=cwd, env=env)
def crate_of(demo_text, diff_text):
    if "maybenot_simulator" in demo_text: return "maybenot-simulator"
    if "maybenot_ffi" in demo_text: return "maybenot-ffi"
    return "maybenot"
for i in (1, 2, 3):
    d = os.path.join(wt, "out", f"mutant{i}.diff"); demo = os.path.join(wt, "out", f"demo{i}.rs"); notes = os.path.join(wt, "out", f"notes{i}.md")
    if not os.path.exists(d) or not os.path.exists(demo):
        print(prop, i, "missing files"); continue
    sh("git checkout -- . && git clean -fdq crates", cwd=wt)
    crate = crate_of(open(demo).read(), open(d).read())
    tdir = os.path.join(wt, "crates", crate, "tests"); os.makedirs(tdir, exist_ok=True)
    tname = f"seed_demo_{prop.lower()}_{i}"
    feat = " --features parsing" if 'feature = "parsing"' in open(demo).read() and crate == "maybenot" else ""
    shutil.copy(demo, os.path.join(tdir, tname + ".rs"))
    # demo on the unmodified code
    r0 = sh(f"cargo test -p {crate} --offline{feat} --test {tname} 2>&1 | tail -5", cwd=wt)
    clean_pass = "test result: ok" in r0.stdout
    ap = sh(f"git apply {d}", cwd=wt)
    if ap.returncode != 0:
        print(prop, i, "diff does not apply", ap.stderr[:200]); continue
    r1 = sh(f"cargo test -p {crate} --offline{feat} --test {tname} 2>&1 | tail -8", cwd=wt)
    mutant_fail = "test result: FAILED" in r1.stdout or "panicked" in r1.stdout
    os.remove(os.path.join(tdir, tname + ".rs"))
    rs = sh("cargo test --workspace --offline 2>&1 | grep -E '^test result|FAILED|^error' ", cwd=wt)
    suite_pass = rs.returncode == 0 and "FAILED" not in rs.stdout and "error" not in rs.stdout and rs.stdout.count("test result: ok") >= 10
    sh("git checkout -- . && git clean -fdq crates", cwd=wt)
    confirmed = clean_pass and mutant_fail and suite_pass
    print(f"{prop}-{i}: demo passes on clean={clean_pass} fails with mutant={mutant_fail} repo suite passes with mutant={suite_pass}", flush=True)
    # run the /verif checks against it
    results = {}
    if confirmed and not confirm_only:
        r = subprocess.run(["/verif/tools/try_patch.sh", d] + checks, text=True, capture_output=True)
        for line in r.stdout.splitlines():
            m = re.match(r"(C\d\d) exit=(\d+)(.*)", line)
            if m: results[m.group(1)] = dict(exit=int(m.group(2)), first_violation=m.group(3).strip()[:500])
        print("   checks:", {k: v["exit"] for k, v in results.items()}, flush=True)
    out = f"/verif/seeded/{prop}-r5-{i}" if "/wt5-" in wt else f"/verif/seeded/{prop}-r4-{i}" if "/wt4-" in wt else f"/verif/seeded/{prop}-r3-{i}" if "/wt3-" in wt else (f"/verif/seeded/{prop}-r2-{i}" if "/wt2-" in wt else f"/verif/seeded/{prop}-{i}")
    os.makedirs(out, exist_ok=True)
    shutil.copy(d, os.path.join(out, "patch.diff")); shutil.copy(demo, os.path.join(out, "demo.rs"))
    if os.path.exists(notes): shutil.copy(notes, os.path.join(out, "notes.md"))
    needs = ""
    if os.path.exists(notes):
        needs = " ".join(open(notes).read().split())[:600]
    meta = dict(breaks=prop, source="independent sub-agent given only the property text and a scratch worktree",
                needs=needs, confirmed=dict(demo_passes_on_unmodified_code=clean_pass, demo_fails_with_change=mutant_fail, repository_suite_passes_with_change=suite_pass),
                ran=[f"cargo test -p {crate} --offline --test {tname} (with and without the change, in a scratch worktree)", "cargo test --workspace --offline (with the change)", "tools/try_patch.sh patch.diff " + " ".join(checks)],
                check_results=results, detected_by=[k for k, v in results.items() if v["exit"] == 1], missed_by=[k for k, v in results.items() if v["exit"] == 0], demo_crate=crate, kept=confirmed)
    json.dump(meta, open(os.path.join(out, "meta.json"), "w"), indent=1)
