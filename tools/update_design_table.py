#!/usr/bin/env python3
import subprocess, re
t = subprocess.run(['python3', '/verif/tools/seed_table.py'], capture_output=True, text=True).stdout
p = '/verif/DESIGN.md'
s = open(p).read()
a = s.index('<!-- SEED-TABLE-BEGIN -->'); b = s.index('<!-- SEED-TABLE-END -->')
s = s[:a] + '<!-- SEED-TABLE-BEGIN -->\n' + t + s[b:]
open(p, 'w').write(s)
print('table updated')
