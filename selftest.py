#!/usr/bin/env python3
"""Detection self-test (DESIGN section 8): apply each recorded property-breaking
change to /repo, run the quick checks that are expected to report it (exit 1 with
a VIOLATION line), restore /repo, and confirm the checks are silent again.

  ./check selftest [--suite] [name-substring ...]

The changes are listed in mutants/INDEX.json and seeded/*/meta.json. /repo is
always restored (git checkout) even on failure; it must be clean to start with.
--suite additionally runs the repository's own test suite with each change
applied, to confirm that the existing tests do not notice it.
"""
import json, os, subprocess, sys, glob

HERE = os.path.dirname(os.path.abspath(__file__))
REPO = "/repo"

def sh(cmd, **kw):
    return subprocess.run(cmd, shell=True, text=True, capture_output=True, **kw)

def repo_clean():
    return sh("git -C %s status --porcelain --untracked-files=no" % REPO).stdout.strip() == ""

def restore():
    sh("git -C %s checkout -- ." % REPO)

def entries():
    out = []
    idx = os.path.join(HERE, "mutants", "INDEX.json")
    if os.path.exists(idx):
        for e in json.load(open(idx)):
            e = dict(e)
            e["patch"] = os.path.join(HERE, e["patch"])
            out.append(e)
    for meta in sorted(glob.glob(os.path.join(HERE, "seeded", "*", "meta.json"))):
        m = json.load(open(meta))
        d = os.path.dirname(meta)
        out.append({"name": "seeded/" + os.path.basename(d), "patch": os.path.join(d, "patch.diff"),
                    "detected_by": m.get("detected_by", []), "silent": m.get("silent", []),
                    "breaks": m.get("breaks"), "note": m.get("needs", "")})
    return out

def run_check(c):
    r = sh("VERIF_EVIDENCE_DIR=%s/harness/target/evidence-scratch %s/check %s quick" % (HERE, HERE, c))
    viol = [l for l in r.stdout.splitlines() if l.startswith("VIOLATION")]
    return r.returncode, viol

def main():
    args = [a for a in sys.argv[1:] if not a.startswith("--")]
    suite = "--suite" in sys.argv
    if not repo_clean():
        print("machinery: /repo has uncommitted changes to tracked files; refusing", file=sys.stderr)
        return 2
    bad = 0
    rows = []
    for e in entries():
        if args and not any(a in e["name"] for a in args):
            continue
        try:
            ap = sh("git -C %s apply %s" % (REPO, e["patch"]))
            if ap.returncode != 0:
                print("%-45s patch does not apply: %s" % (e["name"], ap.stderr.strip()[:200]))
                bad += 1
                continue
            suite_ok = None
            if suite:
                t = sh("cd %s && cargo test --workspace --offline 2>&1 | grep -E '^test result|FAILED' " % REPO)
                suite_ok = "FAILED" not in t.stdout and "failed; " not in t.stdout.replace(" 0 failed;", "")
            det, sil = {}, {}
            for c in e.get("detected_by", []):
                rc, v = run_check(c)
                det[c] = (rc == 1 and len(v) > 0, rc)
            for c in e.get("silent", []):
                rc, v = run_check(c)
                sil[c] = (rc == 0, rc)
        finally:
            restore()
        ok = all(x[0] for x in det.values()) and all(x[0] for x in sil.values())
        if not ok:
            bad += 1
        rows.append((e["name"], det, sil, suite_ok))
        print("%-45s %s detected_by=%s silent=%s%s" % (e["name"], "ok  " if ok else "FAIL",
              {k: v[1] for k, v in det.items()}, {k: v[1] for k, v in sil.items()},
              "" if suite_ok is None else " repo_suite_passes=%s" % suite_ok), flush=True)
    # pristine tree: the checks named above must be silent again
    names = sorted({c for _, det, sil, _ in rows for c in list(det) + list(sil)})
    if "--no-pristine" not in sys.argv:
        for c in names:
            rc, v = run_check(c)
            if rc != 0:
                print("pristine tree: %s exits %d" % (c, rc))
                bad += 1
    print("selftest: %d change(s) tried, %d problem(s)" % (len(rows), bad))
    return 1 if bad else 0

if __name__ == "__main__":
    try:
        sys.exit(main())
    finally:
        restore() if not repo_clean() else None
